"""pyvc engine: path-wise symbolic execution of the *real* function ASTs from /repo.

Decision replay: every path re-executes the harness thunk from the start with a prefix of
decisions; a branch on a symbolic condition asks z3 whether both sides are feasible under the
path condition, takes one and queues the other prefix.

The interpreter covers the Python subset documented in DESIGN.md §2.3.  Anything else raises
`Unsupported` (check exit 2).  Values that are concrete stay real Python objects and are computed
with CPython's own operators.
"""
import ast
import builtins
import inspect
import itertools
import os
import sys
import time
import types

import z3

from . import sym as S
from .sym import SBool, SConst, SInt, SList, SVal, Sym, Unsupported, NativeOnSym, INTERN, OptField

REPO = os.environ.get("VERIF_REPO", "/repo")


# --------------------------------------------------------------------------------------------
# control-flow signals
# --------------------------------------------------------------------------------------------
class Raised(Exception):
    """A Python exception raised by interpreted code."""

    def __init__(self, cls, args=(), obj=None, where=None):
        Exception.__init__(self, cls.__name__)
        self.cls = cls
        self.exc_args = tuple(args)
        self.obj = obj
        self.where = where

    def __repr__(self):
        return "Raised(%s%r @%s)" % (self.cls.__name__, self.exc_args, self.where)


class _Return(Exception):
    def __init__(self, value):
        self.value = value


class _Break(Exception):
    pass


class _Continue(Exception):
    pass


class CutReached(Exception):
    """Execution arrived at a designated cut point (loop head)."""

    def __init__(self, cut_id, env):
        self.cut_id = cut_id
        self.env = env


class PathInfeasible(Exception):
    pass


class SymExc(object):
    """Exception instance whose arguments are symbolic (never constructed natively)."""

    def __init__(self, cls, args):
        self.cls = cls
        self.args = args


# --------------------------------------------------------------------------------------------
# helper objects
# --------------------------------------------------------------------------------------------
class BoundMethod(object):
    def __init__(self, func, owner):
        self.func = func
        self.owner = owner


class Closure(object):
    def __init__(self, node, env, name="<lambda>"):
        self.node = node
        self.env = env
        self.name = name


class SymMethod(object):
    """Method of a symbolic value (resolved at call time)."""

    def __init__(self, owner, name):
        self.owner = owner
        self.name = name


class Stub(object):
    """Engine-level callable standing for a contract-abstracted callee."""

    def __init__(self, name, fn):
        self.name = name
        self.fn = fn


class AbstractObj(object):
    """Object known only through named attributes / stub methods (abstract view)."""

    def __init__(self, name, **attrs):
        object.__setattr__(self, "_name", name)
        object.__setattr__(self, "_attrs", dict(attrs))

    def __repr__(self):
        return "<Abstract %s>" % self._name


class Env(object):
    __slots__ = ("locals", "globals", "parent", "func_name", "func_def")

    def __init__(self, locals_, globals_, parent=None, func_name="?", func_def=None):
        self.locals = locals_
        self.globals = globals_
        self.parent = parent
        self.func_name = func_name
        self.func_def = func_def if func_def is not None else (parent.func_def if parent is not None else None)

    def lookup(self, name):
        e = self
        while e is not None:
            if name in e.locals:
                return e.locals[name]
            e = e.parent
        if name in self.globals:
            return self.globals[name]
        if hasattr(builtins, name):
            return getattr(builtins, name)
        raise Raised(NameError, ("name %r is not defined" % name,))

    def child(self):
        return Env({}, self.globals, self, self.func_name, self.func_def)


# --------------------------------------------------------------------------------------------
# source index: real function objects -> AST of the file in the working tree
# --------------------------------------------------------------------------------------------
class SourceIndex(object):
    def __init__(self):
        self.files = {}

    def tree(self, filename):
        if filename not in self.files:
            with open(filename) as f:
                src = f.read()
            tree = ast.parse(src, filename)
            by_line = {}
            for node in ast.walk(tree):
                if isinstance(node, (ast.FunctionDef, ast.Lambda)):
                    by_line.setdefault(node.lineno, []).append(node)
                    if isinstance(node, ast.FunctionDef):
                        for d in node.decorator_list:
                            by_line.setdefault(d.lineno, []).append(node)
            self.files[filename] = (tree, by_line, src)
        return self.files[filename]

    def funcdef(self, func):
        code = func.__code__
        tree, by_line, _ = self.tree(code.co_filename)
        cands = [n for n in by_line.get(code.co_firstlineno, ()) if isinstance(n, ast.FunctionDef)
                 and n.name == code.co_name]
        if not cands:
            raise Unsupported("no source for %s at %s:%d" % (code.co_name, code.co_filename,
                                                            code.co_firstlineno))
        return cands[0]

    def source_segment(self, func):
        node = self.funcdef(func)
        _, _, src = self.tree(func.__code__.co_filename)
        return ast.get_source_segment(src, node)


def is_repo_function(f):
    return isinstance(f, types.FunctionType) and getattr(f, "__module__", "").startswith("orquesta")


def is_repo_class(c):
    return isinstance(c, type) and getattr(c, "__module__", "").startswith("orquesta")


_MISSING = object()


def static_lookup(cls, name):
    for k in cls.__mro__:
        if name in k.__dict__:
            return k.__dict__[name]
    return _MISSING


# --------------------------------------------------------------------------------------------
# path state
# --------------------------------------------------------------------------------------------
class Path(object):
    def __init__(self, prefix, timeout_ms):
        self.decisions = list(prefix)
        self.pos = 0
        self.pc = []
        self.solver = _DualSolver(timeout_ms)
        self.trace = []
        self.notes = {}
        self.forks = []


def _has_quantifier(expr):
    seen, stack = set(), [expr]
    while stack:
        x = stack.pop()
        if x.get_id() in seen:
            continue
        seen.add(x.get_id())
        if z3.is_quantifier(x):
            return True
        stack.extend(x.children())
    return False


class _DualSolver(object):
    """The path condition in two solvers: `full` (everything) decides obligations; `qf` holds only the
    quantifier-free conjuncts and answers branch-feasibility probes (an over-approximation of
    feasibility: exploring an infeasible branch is sound, it only adds vacuous obligations)."""

    def __init__(self, timeout_ms):
        self.full = z3.Solver()
        self.full.set("timeout", timeout_ms)
        self.qf = z3.Solver()
        self.qf.set("timeout", min(timeout_ms, 3000))
        self.n_quantified = 0

    def add(self, *cs):
        for c in cs:
            self.full.add(c)
            if _has_quantifier(c):
                self.n_quantified += 1
            else:
                self.qf.add(c)

    def set(self, *a, **k):
        self.full.set(*a, **k)

    def push(self):
        self.full.push()

    def pop(self):
        self.full.pop()

    def check(self):
        return self.full.check()

    def model(self):
        return self.full.model()

    def reason_unknown(self):
        return self.full.reason_unknown()

    def assertions(self):
        return self.full.assertions()

    def probe(self, extra):
        if not self.n_quantified:
            return None
        self.qf.push()
        for e in extra:
            if not _has_quantifier(e):
                self.qf.add(e)
        r = self.qf.check()
        self.qf.pop()
        return r


class ObligationResult(object):
    __slots__ = ("name", "status", "model", "info", "time_s", "path_id", "vc_smt2", "reason")

    def __init__(self, name, status, model=None, info=None, time_s=0.0, path_id=0, vc_smt2=None,
                 reason=None):
        self.name = name
        self.status = status  # 'discharged' | 'failed' | 'unknown'
        self.model = model
        self.info = info
        self.time_s = time_s
        self.path_id = path_id
        self.vc_smt2 = vc_smt2
        self.reason = reason


def _mentions(expr, variables):
    """does a z3 expression contain one of the given constants (free)?"""
    ids = {v.get_id() for v in variables if isinstance(v, z3.ExprRef)}
    seen = set()
    stack = [expr]
    while stack:
        x = stack.pop()
        if x.get_id() in seen:
            continue
        seen.add(x.get_id())
        if x.get_id() in ids:
            return True
        if z3.is_quantifier(x):
            stack.append(x.body())
        else:
            stack.extend(x.children())
    return False


class Engine(object):
    def __init__(self, timeout_ms=10000, keep_smt2=False):
        self.sources = SourceIndex()
        self.overrides = {}
        self.prop_overrides = {}
        self.timeout_ms = timeout_ms
        # feasibility probes of branches get a short budget: `unknown` means "explore the branch"
        self.feasibility_timeout_ms = min(timeout_ms, 1500)
        self.keep_smt2 = keep_smt2
        self.path = None
        self.results = []
        self.inputs = {}
        self.n_paths = 0
        self.n_infeasible = 0
        self.solver_time = 0.0
        self.solver_calls = 0
        self.covers = {}
        self.pure = 0
        self.pure_guards = []
        self.escaped = []
        self.pure_vars = []
        self.bound_ids = set()
        self.cuts = {}
        self.loop_handlers = {}
        self.max_paths = 200000
        self.call_depth = 0
        self.functions_interpreted = set()

    # ---------------------------------------------------------------- exploration
    def explore(self, thunk, keep=False):
        """Run thunk(engine) once per feasible path.  Returns list of (outcome, value, path); the path
        (with its solvers) is only retained when keep=True - retaining thousands of solvers is what
        made a single split use gigabytes."""
        work = [[]]
        outs = []
        while work:
            prefix = work.pop()
            self.path = p = Path(prefix, self.timeout_ms)
            self.inputs = {}
            self.n_paths += 1
            if self.n_paths > self.max_paths:
                raise Unsupported("path explosion (> %d paths)" % self.max_paths)
            try:
                val = thunk(self)
                outs.append(("ok", val if keep else None, p if keep else None))
            except PathInfeasible:
                self.n_infeasible += 1
            except Raised as r:
                outs.append(("raise", r, p if keep else None))
                self.escaped.append(repr(r))
            for f in p.forks:
                work.append(f)
            if not keep:
                p.solver = None
                p.trace = None
                p.notes = None
                self.path = None
                if self.n_paths % 200 == 0:
                    import gc
                    gc.collect()
        return outs

    # ---------------------------------------------------------------- solver plumbing
    def _check(self, *extra, **kw):
        t0 = time.time()
        s = self.path.solver
        if kw.get("feasibility"):
            r = s.probe(extra)
            if r is not None:
                self.solver_time += time.time() - t0
                self.solver_calls += 1
                # unsat of the quantifier-free part is definite; anything else: explore the branch
                return (r if r == z3.unsat else z3.unknown), None, None
        quick = False
        if quick:
            s.set("timeout", self.feasibility_timeout_ms)
        try:
            return self._check_inner(s, extra, t0)
        finally:
            if quick:
                s.set("timeout", self.timeout_ms)

    def _check_inner(self, s, extra, t0):
        s.push()
        for e in extra:
            s.add(e)
        r = s.check()
        m = s.model() if r == z3.sat else None
        reason = s.reason_unknown() if r == z3.unknown else None
        s.pop()
        self.solver_time += time.time() - t0
        self.solver_calls += 1
        return r, m, reason

    def assume(self, c):
        if self.pure and self.pure_vars and isinstance(c, z3.ExprRef) and _mentions(c, self.pure_vars):
            # only closed (definitional) axioms may be added while a bound variable is in scope
            raise Unsupported("assumption mentioning a bound variable inside a quantified (pure) context")
        c = self.zbool(c)
        c = z3.simplify(c)
        if z3.is_true(c):
            return
        self.path.pc.append(c)
        self.path.solver.add(c)
        if z3.is_false(c):
            raise PathInfeasible()

    def assume_feasible(self):
        r, _, _ = self._check()
        if r == z3.unsat:
            raise PathInfeasible()

    def branch(self, c):
        """Fork on z3 Bool c; returns the Python bool taken on this path."""
        c = z3.simplify(c)
        if z3.is_true(c):
            return True
        if z3.is_false(c):
            return False
        if self.pure:
            raise Unsupported("branch on symbolic condition inside a quantified (pure) context")
        p = self.path
        if p.pos < len(p.decisions):
            d = p.decisions[p.pos]
        else:
            rt, _, _ = self._check(c, feasibility=True)
            rf, _, _ = self._check(z3.Not(c), feasibility=True)
            t_ok = rt != z3.unsat
            f_ok = rf != z3.unsat
            if t_ok and f_ok:
                d = 1
                p.forks.append(p.decisions[: p.pos] + [0])
            elif t_ok:
                d = 1
            elif f_ok:
                d = 0
            else:
                raise PathInfeasible()
            p.decisions.append(d)
        p.pos += 1
        lit = c if d else z3.Not(c)
        p.pc.append(lit)
        p.solver.add(lit)
        return bool(d)

    def choose(self, n, feasible=None):
        """n-way fork; feasible(i) -> z3 Bool constraint of option i (or None)."""
        p = self.path
        if self.pure:
            raise Unsupported("choice inside a quantified (pure) context")
        if p.pos < len(p.decisions):
            d = p.decisions[p.pos]
        else:
            opts = []
            for i in range(n):
                if feasible is None:
                    opts.append(i)
                else:
                    r, _, _ = self._check(feasible(i), feasibility=True)
                    if r != z3.unsat:
                        opts.append(i)
            if not opts:
                raise PathInfeasible()
            d = opts[0]
            for o in opts[1:]:
                p.forks.append(p.decisions[: p.pos] + [o])
            p.decisions.append(d)
        p.pos += 1
        if feasible is not None:
            c = feasible(d)
            p.pc.append(c)
            p.solver.add(c)
        return d

    def concretize(self, v):
        """Turn a finite-domain symbolic constant into a concrete value by forking."""
        if isinstance(v, SConst):
            if v.dom is None:
                raise Unsupported("cannot concretize open-domain constant %r" % (v,))
            dom = v.dom
            i = self.choose(len(dom), lambda k: v.z == INTERN.id_of(dom[k]))
            return dom[i]
        if isinstance(v, SBool):
            return self.branch(v.z)
        if isinstance(v, Sym):
            raise Unsupported("cannot concretize %r" % (v,))
        return v

    # ---------------------------------------------------------------- obligations
    def register_input(self, name, v):
        self.inputs[name] = v
        return v

    def model_inputs(self, m):
        out = {}
        for k, v in self.inputs.items():
            out[k] = self.model_value(m, v)
        return out

    def model_value(self, m, v):
        if isinstance(v, SBool):
            return bool(z3.is_true(m.eval(v.z, model_completion=True)))
        if isinstance(v, SInt):
            return m.eval(v.z, model_completion=True).as_long()
        if isinstance(v, SConst):
            i = m.eval(v.z, model_completion=True).as_long()
            if 0 <= i < len(INTERN.vals):
                c = INTERN.val_of(i)
                if v.dom is None or c in v.dom:
                    return c
            return "<const#%d>" % i
        if isinstance(v, SVal):
            return "<%s>" % m.eval(v.z, model_completion=True)
        if isinstance(v, SList):
            n = m.eval(v.length, model_completion=True).as_long()
            return [self.model_value(m, v.get(z3.IntVal(i))) for i in range(min(n, 12))]
        if isinstance(v, dict):
            out = {}
            for k, x in v.items():
                if isinstance(x, OptField):
                    pres = x.present if isinstance(x.present, bool) else bool(
                        z3.is_true(m.eval(x.present, model_completion=True)))
                    if pres:
                        out[k] = self.model_value(m, x.value)
                else:
                    out[k] = self.model_value(m, x)
            return out
        if isinstance(v, (list, tuple)):
            return [self.model_value(m, x) for x in v]
        return v

    def oblige(self, name, claim, info=None):
        """Proof obligation: pc => claim.  Checked immediately (pc ∧ ¬claim must be unsat)."""
        c = self.zbool(claim)
        t0 = time.time()
        simp = z3.simplify(c)
        if z3.is_true(simp):
            res = ObligationResult(name, "discharged", info=info, path_id=self.n_paths)
            self.results.append(res)
            return res
        r, m, reason = self._check(z3.Not(c))
        dt = time.time() - t0
        smt2 = None
        if self.keep_smt2 or r != z3.unsat:
            s2 = z3.Solver()
            for a in self.path.solver.assertions():
                s2.add(a)
            s2.add(z3.Not(c))
            smt2 = s2.to_smt2()
        if r == z3.unsat:
            res = ObligationResult(name, "discharged", info=info, time_s=dt, path_id=self.n_paths,
                                   vc_smt2=smt2)
        elif r == z3.sat:
            small = self.small_lists()
            if small:
                r2, m2, _ = self._check(z3.Not(c), *small)
                if r2 == z3.sat:
                    m = m2
            res = ObligationResult(name, "failed", model=self.model_inputs(m), info=info, time_s=dt,
                                   path_id=self.n_paths, vc_smt2=smt2)
        else:
            res = ObligationResult(name, "unknown", info=info, time_s=dt, path_id=self.n_paths,
                                   vc_smt2=smt2, reason=reason)
        self.results.append(res)
        return res

    def small_lists(self, bound=6):
        """Constraints bounding the symbolic input lists (only to obtain readable counter-models)."""
        return [v.length <= bound for v in self.inputs.values() if isinstance(v, SList)]

    def cover(self, name):
        self.covers[name] = self.covers.get(name, 0) + 1

    # ---------------------------------------------------------------- symbolic helpers
    def zbool(self, v):
        """z3 Bool for the truthiness of v."""
        if isinstance(v, z3.BoolRef):
            return v
        if isinstance(v, SBool):
            return v.z
        if isinstance(v, SInt):
            return v.z != 0
        if isinstance(v, SConst):
            if v.dom is not None:
                return z3.Or([v.z == INTERN.id_of(c) for c in v.dom if c]) if any(v.dom) else \
                    z3.BoolVal(False)
            f = z3.Function("truthy_const", z3.IntSort(), z3.BoolSort())
            return f(v.z)
        if isinstance(v, SVal):
            return S.truthy_val(v.z)
        if isinstance(v, SList):
            return v.length > 0
        if isinstance(v, Sym):
            raise Unsupported("truthiness of %r" % (v,))
        try:
            return z3.BoolVal(bool(v))
        except NativeOnSym:
            raise Unsupported("truthiness of container with symbolic parts")

    def truth(self, v):
        if not isinstance(v, Sym) and not isinstance(v, z3.BoolRef):
            if isinstance(v, (list, dict, tuple, set, str)) or v is None or isinstance(v, (int, bool)):
                return bool(v)
            try:
                return bool(v)
            except NativeOnSym:
                raise Unsupported("truthiness of container with symbolic parts")
        return self.branch(self.zbool(v))

    def sym_eq(self, a, b):
        """z3 Bool (or python bool) for a == b."""
        if not isinstance(a, Sym) and isinstance(b, Sym):
            a, b = b, a
        if isinstance(a, SConst):
            if isinstance(b, SConst):
                return a.z == b.z
            if isinstance(b, Sym):
                raise Unsupported("== between %r and %r" % (a, b))
            try:
                hash(b)
            except TypeError:
                return False
            if a.dom is not None and not any(type(c) is type(b) and c == b for c in a.dom):
                return False
            return a.z == INTERN.id_of(b)
        if isinstance(a, SInt):
            if isinstance(b, SInt):
                return a.z == b.z
            if isinstance(b, bool):
                return a.z == int(b)
            if isinstance(b, int):
                return a.z == b
            if isinstance(b, Sym):
                raise Unsupported("== between %r and %r" % (a, b))
            return False
        if isinstance(a, SBool):
            if isinstance(b, SBool):
                return a.z == b.z
            if isinstance(b, bool):
                return a.z if b else z3.Not(a.z)
            if isinstance(b, int) and b in (0, 1):
                return a.z if b else z3.Not(a.z)
            if isinstance(b, Sym):
                raise Unsupported("== between %r and %r" % (a, b))
            return False
        if isinstance(a, SVal):
            if isinstance(b, SVal):
                return a.z == b.z
            raise Unsupported("== between opaque value and %r" % (b,))
        if isinstance(a, SList):
            if isinstance(b, SList):
                # extensional equality: same length and pointwise equal (decided syntactically when both
                # sides share their element function, as after copy / append)
                j = z3.Int(S.fresh_name("eqj"))
                inner = self.sym_eq(a.get(j), b.get(j))
                inner = z3.BoolVal(inner) if isinstance(inner, bool) else inner
                return z3.simplify(z3.And(a.length == b.length,
                                          z3.ForAll([j], z3.Implies(z3.And(0 <= j, j < a.length), inner))))
            raise Unsupported("== on symbolic list")
        # both concrete at top level
        if isinstance(a, (list, tuple)) and type(a) is type(b):
            if len(a) != len(b):
                return False
            parts = [self.sym_eq(x, y) for x, y in zip(a, b)]
            return self._and(parts)
        if isinstance(a, dict) and isinstance(b, dict):
            if a is b:
                return True
            self.resolve_opt(a)
            self.resolve_opt(b)
            if set(a.keys()) != set(b.keys()):
                return False
            return self._and([self.sym_eq(a[k], b[k]) for k in a])
        try:
            return a == b
        except NativeOnSym:
            raise Unsupported("== on structures with symbolic parts")

    def _and(self, parts):
        zs = []
        for p in parts:
            if p is False:
                return False
            if p is True:
                continue
            zs.append(p)
        if not zs:
            return True
        return z3.And(zs)

    def _or(self, parts):
        zs = []
        for p in parts:
            if p is True:
                return True
            if p is False:
                continue
            zs.append(p)
        if not zs:
            return False
        return z3.Or(zs)

    def resolve_opt(self, d):
        """Decide (by forking) the presence of every optional field of a dict."""
        for k in list(d.keys()):
            val = d[k]
            if isinstance(val, OptField):
                pz = val.present if not isinstance(val.present, bool) else z3.BoolVal(val.present)
                if self.branch(pz):
                    d[k] = val.value
                else:
                    del d[k]
        return d

    def wrap_bool(self, z):
        if z is True or z is False:
            return z
        z = z3.simplify(z)
        if z3.is_true(z):
            return True
        if z3.is_false(z):
            return False
        return SBool(z)

    def contains(self, x, container):
        """x in container"""
        if isinstance(container, SList):
            return self.wrap_bool(self.slist_contains(x, container))
        if isinstance(container, Sym):
            if isinstance(container, SConst) and container.dom is not None:
                container = self.concretize(container)
            else:
                raise Unsupported("`in` on %r" % (container,))
        if isinstance(container, AbstractObj):
            fn = container._attrs.get("__contains__")
            if fn is None:
                raise Unsupported("`in` on %r" % (container,))
            return self.call(fn, [x], {})
        if isinstance(container, (dict, type({}.keys()), type({}.values()))):
            if isinstance(container, dict):
                if any(isinstance(val, OptField) for val in container.values()):
                    if isinstance(x, SConst):
                        x = self.concretize(x)
                    if not isinstance(x, Sym):
                        try:
                            val = container.get(x, _MISSING)
                        except TypeError:
                            val = _MISSING
                        if isinstance(val, OptField):
                            return self.wrap_bool(val.present)
                        return val is not _MISSING
                    self.resolve_opt(container)
                keys = list(container.keys())
            else:
                keys = list(container)
            if not isinstance(x, Sym) and not any(isinstance(k, Sym) for k in keys):
                if S.deep_has_sym(x) or S.deep_has_sym(keys):
                    return self.wrap_bool(self._or([self.sym_eq(x, k) for k in keys]))
                return x in container
            return self.wrap_bool(self._or([self.sym_eq(x, k) for k in keys]))
        if isinstance(container, (list, tuple, set, frozenset)):
            if not S.deep_has_sym(x) and not S.deep_has_sym(container):
                return x in container
            items = list(container)
            for it in items:
                if it is x:
                    return True
            return self.wrap_bool(self._or([self.sym_eq(x, k) for k in items]))
        if isinstance(container, str):
            if isinstance(x, Sym):
                x = self.concretize(x)
            return x in container
        if is_repo_class(type(container)):
            m = static_lookup(type(container), "__contains__")
            if m is not _MISSING:
                return self.call(BoundMethod(m, container), [x], {})
        if isinstance(x, Sym):
            raise Unsupported("`in` with symbolic lhs on %r" % (type(container),))
        return x in container

    def slist_contains(self, x, xs):
        if self.pure:
            # inside a quantified predicate the answer must be a term of the bound variable
            q = z3.Int(S.fresh_name("q_in"))
            self.bound_ids.add(q.get_id())
            return z3.Exists([q], z3.And(0 <= q, q < xs.length, self.zbool_of(self.sym_eq(x, xs.get(q)))))
        w = z3.Int(S.fresh_name("w_in"))
        b = z3.Bool(S.fresh_name("in"))
        eqw = self.zbool_of(self.sym_eq(x, xs.get(w)))
        i = z3.Int(S.fresh_name("i_in"))
        self.bound_ids.add(i.get_id())
        eqi = self.zbool_of(self.sym_eq(x, xs.get(i)))
        self.assume(z3.Implies(b, z3.And(0 <= w, w < xs.length, eqw)))
        self.assume(z3.ForAll([i], z3.Implies(z3.And(0 <= i, i < xs.length, eqi), b)))
        return b

    def zbool_of(self, b):
        if b is True or b is False:
            return z3.BoolVal(b)
        if isinstance(b, z3.BoolRef):
            return b
        return self.zbool(b)

    # ---------------------------------------------------------------- attribute access
    def get_attr(self, obj, name, node=None):
        if isinstance(obj, AbstractObj):
            if name in obj._attrs:
                v = obj._attrs[name]
                if isinstance(v, property):
                    return v.fget(self, obj)
                return v
            if name.startswith("__") or obj._attrs.get("__open__"):
                raise Raised(AttributeError, ("%r has no attribute %r" % (obj, name),))
            # the abstract view has no contract for this attribute: undecided, never a verdict
            raise Unsupported("abstract object %s has no contract for attribute %r" % (obj._name, name))
        if isinstance(obj, Sym):
            return SymMethod(obj, name)
        if isinstance(obj, SymExc):
            if name == "args":
                return obj.args
            raise Unsupported("attribute %s of symbolic exception" % name)
        if isinstance(obj, type):
            if is_repo_class(obj):
                v = static_lookup(obj, name)
                if v is _MISSING:
                    return getattr(obj, name)
                if isinstance(v, classmethod):
                    return BoundMethod(v.__func__, obj)
                if isinstance(v, staticmethod):
                    return v.__func__
                return v
            return getattr(obj, name)
        cls = type(obj)
        if is_repo_class(cls):
            d = getattr(obj, "__dict__", {})
            key = (cls, name)
            for k in cls.__mro__:
                if (k, name) in self.prop_overrides:
                    return self.prop_overrides[(k, name)](self, obj)
            v = static_lookup(cls, name)
            if v is not _MISSING and isinstance(v, property):
                return self.call_function(v.fget, [obj], {})
            if name in d:
                return d[name]
            if v is _MISSING:
                ga = static_lookup(cls, "__getattr__")
                if ga is not _MISSING:
                    return self.call_function(ga, [obj, name], {})
                raise Raised(AttributeError, ("%s has no attribute %r" % (cls.__name__, name),))
            if isinstance(v, classmethod):
                return BoundMethod(v.__func__, cls)
            if isinstance(v, staticmethod):
                return v.__func__
            if isinstance(v, types.FunctionType):
                return BoundMethod(v, obj)
            return v
        try:
            return getattr(obj, name)
        except AttributeError as e:
            raise Raised(AttributeError, e.args)

    def set_attr(self, obj, name, value):
        if isinstance(obj, AbstractObj):
            self.path.trace.append(("setattr", obj._name, name, value))
            obj._attrs[name] = value
            return
        if isinstance(obj, Sym):
            raise Unsupported("attribute assignment on symbolic value")
        object.__setattr__(obj, name, value)

    # ---------------------------------------------------------------- calls
    def call(self, f, args, kwargs, node=None):
        if isinstance(f, Stub):
            return f.fn(self, *args, **kwargs)
        if isinstance(f, BoundMethod):
            return self.call(f.func, [f.owner] + list(args), kwargs, node)
        if isinstance(f, Closure):
            return self.call_closure(f, args, kwargs)
        if isinstance(f, SymMethod):
            return self.call_sym_method(f.owner, f.name, args, kwargs)
        if isinstance(f, types.MethodType):
            und = f.__func__
            if und in self.overrides or is_repo_function(und):
                return self.call(und, [f.__self__] + list(args), kwargs, node)
        try:
            hashable = f in self.overrides
        except TypeError:
            hashable = False
        if hashable:
            return self.overrides[f](self, *args, **kwargs)
        if is_repo_function(f):
            return self.call_function(f, args, kwargs)
        if isinstance(f, type):
            return self.instantiate(f, args, kwargs)
        return self.builtin_call(f, args, kwargs)

    def instantiate(self, cls, args, kwargs):
        if isinstance(cls, type) and issubclass(cls, BaseException):
            if any(S.deep_has_sym(a) for a in args) or any(S.deep_has_sym(a) for a in kwargs.values()):
                return SymExc(cls, tuple(args))
            if is_repo_class(cls):
                init = static_lookup(cls, "__init__")
                if isinstance(init, types.FunctionType) and is_repo_function(init):
                    try:
                        return cls(*args, **kwargs)
                    except Exception as e:  # constructing the exception itself failed
                        raise Raised(type(e), e.args)
            return cls(*args, **kwargs)
        if is_repo_class(cls):
            if cls in self.overrides:
                return self.overrides[cls](self, *args, **kwargs)
            obj = cls.__new__(cls)
            init = static_lookup(cls, "__init__")
            if isinstance(init, types.FunctionType):
                if is_repo_function(init):
                    self.call_function(init, [obj] + list(args), kwargs)
                else:
                    init(obj, *args, **kwargs)
            return obj
        return self.builtin_call(cls, args, kwargs)

    def bind_args(self, fdef, args, kwargs, defaults_env, func=None):
        a = fdef.args
        if a.posonlyargs or a.kwonlyargs:
            if a.kwonlyargs:
                raise Unsupported("keyword-only args in %s" % getattr(fdef, "name", "lambda"))
        params = [p.arg for p in a.args]
        loc = {}
        args = list(args)
        if len(args) > len(params) and not a.vararg:
            raise Raised(TypeError, ("too many positional arguments",))
        for p, v in zip(params, args):
            loc[p] = v
        if a.vararg:
            loc[a.vararg.arg] = tuple(args[len(params):])
        kw = dict(kwargs)
        for p in params:
            if p in kw:
                if p in loc:
                    raise Raised(TypeError, ("multiple values for %s" % p,))
                loc[p] = kw.pop(p)
        if a.kwarg:
            loc[a.kwarg.arg] = kw
        elif kw:
            raise Raised(TypeError, ("unexpected keyword arguments %s" % sorted(kw),))
        nd = len(a.defaults)
        for idx, p in enumerate(params):
            if p not in loc:
                di = idx - (len(params) - nd)
                if di < 0:
                    raise Raised(TypeError, ("missing argument %s" % p,))
                if func is not None and func.__defaults__ is not None:
                    loc[p] = func.__defaults__[di]
                else:
                    loc[p] = self.eval(a.defaults[di], defaults_env)
        return loc

    def call_function(self, func, args, kwargs, bypass=False):
        if func in self.overrides and not bypass:
            return self.overrides[func](self, *args, **kwargs)
        fdef = self.sources.funcdef(func)
        self.functions_interpreted.add("%s.%s" % (func.__module__, func.__qualname__))
        loc = self.bind_args(fdef, args, kwargs, None, func=func)
        env = Env(loc, func.__globals__, None, func.__qualname__, fdef)
        # __class__ cell for zero-arg super(): not supported; explicit super(C, self) is.
        self.call_depth += 1
        if self.call_depth > 60:
            self.call_depth -= 1
            raise Unsupported("interpreter recursion too deep in %s" % func.__qualname__)
        try:
            self.exec_block(fdef.body, env)
        except _Return as r:
            return r.value
        finally:
            self.call_depth -= 1
        return None

    def call_closure(self, clo, args, kwargs):
        node = clo.node
        loc = self.bind_args(node, args, kwargs, clo.env)
        env = Env(loc, clo.env.globals, clo.env, clo.env.func_name)
        if isinstance(node, ast.Lambda):
            return self.eval(node.body, env)
        try:
            self.exec_block(node.body, env)
        except _Return as r:
            return r.value
        return None

    def call_sym_method(self, owner, name, args, kwargs):
        if isinstance(owner, SConst):
            if owner.dom is None:
                raise Unsupported("method %s on open-domain constant" % name)
            c = self.concretize(owner)
            args = [self.concretize(a) if isinstance(a, SConst) else a for a in args]
            return self.builtin_call(getattr(c, name), args, kwargs)
        if isinstance(owner, SList):
            from . import seqlib
            return seqlib.slist_method(self, owner, name, args, kwargs)
        raise Unsupported("method %s on %r" % (name, owner))

    # ---------------------------------------------------------------- builtins
    def builtin_call(self, f, args, kwargs):
        from . import seqlib
        h = seqlib.BUILTIN_MODELS.get(f) if isinstance(f, (types.BuiltinFunctionType, type)) else None
        anysym = any(isinstance(a, Sym) for a in args) or any(
            isinstance(a, Sym) for a in kwargs.values())
        if h is not None:
            r = h(self, args, kwargs, anysym)
            if r is not seqlib.NOT_HANDLED:
                return r
        # bound builtin method on a concrete container (dict.get, list.append ...)
        owner = getattr(f, "__self__", None)
        if owner is not None and not isinstance(owner, types.ModuleType):
            r = seqlib.container_method(self, owner, f.__name__, args, kwargs)
            if r is not seqlib.NOT_HANDLED:
                return r
        if anysym or any(isinstance(a, (Closure, BoundMethod, Stub)) for a in args):
            # last resort: concretize finite-domain constants
            try:
                cargs = [self.concretize(a) if isinstance(a, (SConst, SBool)) else a for a in args]
            except Unsupported:
                raise Unsupported("builtin %r on symbolic arguments %r" % (f, args))
            if any(isinstance(a, (Sym, Closure, BoundMethod, Stub)) for a in cargs):
                raise Unsupported("builtin %r on symbolic arguments %r" % (f, args))
            args = cargs
        try:
            return f(*args, **kwargs)
        except NativeOnSym as e:
            raise Unsupported("native call %r touched a symbolic value: %s" % (f, e))
        except Unsupported:
            raise
        except (PathInfeasible, Raised, _Return, _Break, _Continue, CutReached):
            raise
        except Exception as e:
            raise Raised(type(e), e.args, obj=e)

    # ---------------------------------------------------------------- statements
    def exec_block(self, stmts, env):
        for st in stmts:
            self.exec_stmt(st, env)

    def exec_stmt(self, st, env):
        m = getattr(self, "st_" + type(st).__name__, None)
        if m is None:
            raise Unsupported("statement %s at line %d in %s" % (type(st).__name__, st.lineno,
                                                               env.func_name))
        try:
            return m(st, env)
        except Raised as r:
            if r.where is None:
                r.where = "%s:%d" % (env.func_name, st.lineno)
            raise

    def st_Expr(self, st, env):
        v = st.value
        if isinstance(v, ast.Constant):
            return  # docstring
        if self.is_log_call(v):
            return
        self.eval(v, env)

    @staticmethod
    def is_log_call(v):
        return (isinstance(v, ast.Call) and isinstance(v.func, ast.Attribute)
                and isinstance(v.func.value, ast.Name) and v.func.value.id == "LOG")

    def st_Pass(self, st, env):
        pass

    def st_Return(self, st, env):
        raise _Return(self.eval(st.value, env) if st.value is not None else None)

    def st_Break(self, st, env):
        raise _Break()

    def st_Continue(self, st, env):
        raise _Continue()

    def st_Assign(self, st, env):
        v = self.eval(st.value, env)
        for t in st.targets:
            self.assign(t, v, env)

    def st_AnnAssign(self, st, env):
        if st.value is not None:
            self.assign(st.target, self.eval(st.value, env), env)

    def st_AugAssign(self, st, env):
        if isinstance(st.target, ast.Name):
            cur = env.lookup(st.target.id)
            new = self.binop(st.op, cur, self.eval(st.value, env), inplace=True)
            self.assign(st.target, new, env)
        elif isinstance(st.target, ast.Subscript):
            c = self.eval(st.target.value, env)
            k = self.eval_slice(st.target.slice, env)
            cur = self.subscript(c, k)
            new = self.binop(st.op, cur, self.eval(st.value, env), inplace=True)
            self.store_subscript(c, k, new)
        elif isinstance(st.target, ast.Attribute):
            o = self.eval(st.target.value, env)
            cur = self.get_attr(o, st.target.attr)
            new = self.binop(st.op, cur, self.eval(st.value, env), inplace=True)
            self.set_attr(o, st.target.attr, new)
        else:
            raise Unsupported("augmented assignment target")

    def assign(self, t, v, env):
        if isinstance(t, ast.Name):
            if t.id in env.locals.get("__globals_declared__", ()):
                raise Unsupported("assignment to module global %s (side effect outside the verified state)" % t.id)
            if t.id in env.locals.get("__nonlocals_declared__", ()):
                e2 = env.parent
                while e2 is not None:
                    if t.id in e2.locals:
                        e2.locals[t.id] = v
                        return
                    e2 = e2.parent
            env.locals[t.id] = v
        elif isinstance(t, (ast.Tuple, ast.List)):
            if isinstance(v, Sym):
                raise Unsupported("unpacking a symbolic value")
            vals = list(v)
            if len(vals) != len(t.elts):
                raise Raised(ValueError, ("unpack mismatch",))
            for tt, vv in zip(t.elts, vals):
                self.assign(tt, vv, env)
        elif isinstance(t, ast.Subscript):
            c = self.eval(t.value, env)
            k = self.eval_slice(t.slice, env)
            self.store_subscript(c, k, v)
        elif isinstance(t, ast.Attribute):
            o = self.eval(t.value, env)
            self.set_attr(o, t.attr, v)
        else:
            raise Unsupported("assignment target %s" % type(t).__name__)

    def st_Delete(self, st, env):
        for t in st.targets:
            if isinstance(t, ast.Subscript):
                c = self.eval(t.value, env)
                k = self.eval_slice(t.slice, env)
                self.del_subscript(c, k)
            elif isinstance(t, ast.Name):
                del env.locals[t.id]
            else:
                raise Unsupported("del target")

    def st_If(self, st, env):
        if self.truth(self.eval_cond(st.test, env)):
            self.exec_block(st.body, env)
        else:
            self.exec_block(st.orelse, env)

    def st_Assert(self, st, env):
        if not self.truth(self.eval_cond(st.test, env)):
            raise Raised(AssertionError, ())

    def st_Raise(self, st, env):
        if st.exc is None:
            cur = env.lookup("__current_exception__")
            raise cur
        e = self.eval(st.exc, env)
        if isinstance(e, type) and issubclass(e, BaseException):
            raise Raised(e, (), None)
        if isinstance(e, SymExc):
            raise Raised(e.cls, e.args, e)
        if isinstance(e, BaseException):
            raise Raised(type(e), e.args, e)
        raise Unsupported("raise of %r" % (e,))

    def st_Try(self, st, env):
        if st.finalbody:
            inner = ast.Try(body=st.body, handlers=st.handlers, orelse=st.orelse, finalbody=[])
            ast.copy_location(inner, st)
            try:
                if st.handlers or st.orelse:
                    self.st_Try(inner, env)
                else:
                    self.exec_block(st.body, env)
            except (Raised, _Return, _Break, _Continue):
                self.exec_block(st.finalbody, env)
                raise
            self.exec_block(st.finalbody, env)
            return
        try:
            self.exec_block(st.body, env)
        except Raised as r:
            for h in st.handlers:
                if h.type is None:
                    match = True
                else:
                    ht = self.eval(h.type, env)
                    hts = ht if isinstance(ht, tuple) else (ht,)
                    match = any(issubclass(r.cls, x) for x in hts)
                if match:
                    if h.name:
                        env.locals[h.name] = r.obj if r.obj is not None else SymExc(r.cls, r.exc_args)
                    prev = env.locals.get("__current_exception__")
                    env.locals["__current_exception__"] = r
                    self.path.trace.append(("caught", r.cls.__name__, r.where, env.func_name, h.lineno))
                    try:
                        self.exec_block(h.body, env)
                    finally:
                        env.locals["__current_exception__"] = prev
                    return
            raise
        else:
            self.exec_block(st.orelse, env)

    def loop_key(self, st, env):
        """<function qualname>:loop#<ordinal of this loop statement in the function> - independent of
        the names of locals and of the text of the iterated expression"""
        fdef = env.func_def
        if fdef is None:
            return "%s:%s" % (env.func_name, ast.unparse(st.iter if isinstance(st, ast.For) else st.test))
        loops = sorted((n for n in ast.walk(fdef) if isinstance(n, (ast.For, ast.While))),
                       key=lambda n: (n.lineno, n.col_offset))
        for k, n in enumerate(loops):
            if n is st:
                return "%s:loop#%d" % (env.func_name, k)
        return "%s:loop@%d" % (env.func_name, st.lineno)

    def st_For(self, st, env):
        key = self.loop_key(st, env)
        if key in self.loop_handlers:
            try:
                return self.loop_handlers[key](self, st, env)
            except (_Break, _Continue):
                raise Unsupported("break / continue escaping the loop summary of %s" % key)
        it = self.eval(st.iter, env)
        if isinstance(it, SList) or (isinstance(it, tuple) and len(it) == 2 and it[0] == "enumerate"
                                     and isinstance(it[1], SList)):
            return self.summarise_selection_loop(st, env, it, key)
        if isinstance(it, Sym):
            raise Unsupported("loop over symbolic %r needs an invariant (%s)" % (it, key))
        items = self.iterate(it)
        broke = False
        for x in items:
            self.assign(st.target, x, env)
            try:
                self.exec_block(st.body, env)
            except _Break:
                broke = True
                break
            except _Continue:
                continue
        if not broke:
            self.exec_block(st.orelse, env)

    def summarise_selection_loop(self, st, env, it, key):
        """A loop over a list of symbolic length whose body only selects / maps into one accumulator,

            for x in xs:                 for x in xs:                  for x in xs:
                if c(x):                     if not c(x):                  acc.append(f(x))
                    acc.append(f(x))             continue
                                             acc.append(f(x))

        is the list comprehension acc + [f(x) for x in xs if c(x)] (exact: the body has no other
        effect).  Any other loop over a symbolic list needs a registered loop summary."""
        from . import seqlib

        def append_of(stmt):
            if (isinstance(stmt, ast.Expr) and isinstance(stmt.value, ast.Call)
                    and isinstance(stmt.value.func, ast.Attribute) and stmt.value.func.attr == "append"
                    and isinstance(stmt.value.func.value, ast.Name) and len(stmt.value.args) == 1
                    and not stmt.value.keywords):
                return stmt.value.func.value.id, stmt.value.args[0]
            return None

        body, conds, acc = list(st.body), [], None
        if st.orelse:
            body = None
        while body:
            if len(body) == 1 and append_of(body[0]):
                acc = append_of(body[0])
                break
            if len(body) == 1 and isinstance(body[0], ast.If) and not body[0].orelse:
                conds.append(body[0].test)
                body = list(body[0].body)
                continue
            if (len(body) >= 2 and isinstance(body[0], ast.If) and not body[0].orelse
                    and len(body[0].body) == 1 and isinstance(body[0].body[0], ast.Continue)):
                conds.append(ast.UnaryOp(op=ast.Not(), operand=body[0].test))
                body = body[1:]
                continue
            break
        if acc is None:
            raise Unsupported("loop over a list of symbolic length needs an invariant (%s)" % key)
        acc_name, elt = acc
        before = env.lookup(acc_name)
        if not isinstance(before, (list, SList)):
            raise Unsupported("accumulator of the loop over a symbolic list is not a list (%s)" % key)
        gen = ast.comprehension(target=st.target, iter=st.iter, ifs=conds, is_async=0)
        comp = ast.ListComp(elt=elt, generators=[gen])
        ast.copy_location(comp, st)
        ast.fix_missing_locations(comp)
        selected = seqlib.slist_comprehension(self, comp, gen, it, env)
        if isinstance(before, list) and not before:
            result = selected
        else:
            result = seqlib.concat(self, before, selected)
        e_ = env
        while e_ is not None and acc_name not in e_.locals:
            e_ = e_.parent
        (e_ or env).locals[acc_name] = result
        # the loop variables have no defined value after a summarised loop
        for nm in ast.walk(st.target):
            if isinstance(nm, ast.Name):
                env.locals[nm.id] = AbstractObj("loop variable %s after the summarised loop %s" % (nm.id, key))

    def st_While(self, st, env):
        key = self.loop_key(st, env)
        if key in self.loop_handlers:
            return self.loop_handlers[key](self, st, env)
        n = 0
        while True:
            c = self.eval_cond(st.test, env)
            if isinstance(c, Sym):
                raise Unsupported("while on symbolic condition needs an invariant (%s)" % key)
            if not c:
                break
            n += 1
            if n > 10000:
                raise Unsupported("while loop did not terminate concretely (%s)" % key)
            try:
                self.exec_block(st.body, env)
            except _Break:
                return
            except _Continue:
                continue
        self.exec_block(st.orelse, env)

    def st_FunctionDef(self, st, env):
        if st.decorator_list:
            raise Unsupported("decorated nested function %s" % st.name)
        env.locals[st.name] = Closure(st, env, st.name)

    def st_Global(self, st, env):
        gl = env.locals.setdefault("__globals_declared__", set())
        gl.update(st.names)

    def st_Nonlocal(self, st, env):
        nl = env.locals.setdefault("__nonlocals_declared__", set())
        nl.update(st.names)

    def st_Import(self, st, env):
        raise Unsupported("import inside function")

    def arbitrary_order(self, items):
        """Iteration order of a set is arbitrary (PYTHONHASHSEED): explore every permutation for up
        to 3 elements, and all rotations plus the reversal beyond that (stated bound)."""
        import itertools as _it
        from . import seqlib
        try:
            base = sorted(items, key=repr)
        except Exception:
            base = list(items)
        n = len(base)
        if n <= 1:
            return seqlib.TaintedList(base)
        if n <= 3:
            perms = list(_it.permutations(base))
        else:
            perms = [tuple(base[k:] + base[:k]) for k in range(n)] + [tuple(reversed(base))]
        k = self.choose(len(perms))
        self.path.notes["set_orders"] = self.path.notes.get("set_orders", 0) + 1
        return seqlib.TaintedList(perms[k])

    def iterate(self, it):
        """Concrete iteration order of a concrete iterable (elements may be symbolic)."""
        if isinstance(it, dict):
            self.resolve_opt(it)
            return list(it)
        if isinstance(it, (list, tuple, str, range, enumerate, zip, map, filter, reversed)):
            return list(it)
        if isinstance(it, (set, frozenset)):
            return self.arbitrary_order(list(it))
        if isinstance(it, (type({}.keys()), type({}.values()), type({}.items()))):
            return list(it)
        if is_repo_class(type(it)):
            m = static_lookup(type(it), "__iter__")
            if m is not _MISSING:
                r = self.call(BoundMethod(m, it), [], {})
                return self.iterate(r)
        if hasattr(it, "__next__"):
            return list(it)
        raise Unsupported("iteration over %r" % type(it))

    # ---------------------------------------------------------------- expressions
    def eval_cond(self, node, env):
        return self.eval(node, env)

    def eval(self, node, env):
        m = getattr(self, "ex_" + type(node).__name__, None)
        if m is None:
            raise Unsupported("expression %s at line %d" % (type(node).__name__, node.lineno))
        return m(node, env)

    def ex_Constant(self, n, env):
        return n.value

    def ex_Name(self, n, env):
        return env.lookup(n.id)

    def ex_Attribute(self, n, env):
        return self.get_attr(self.eval(n.value, env), n.attr, n)

    def ex_Tuple(self, n, env):
        return tuple(self.eval_elts(n.elts, env))

    def ex_List(self, n, env):
        return list(self.eval_elts(n.elts, env))

    def ex_Set(self, n, env):
        return set(self.eval_elts(n.elts, env))

    def eval_elts(self, elts, env):
        out = []
        for e in elts:
            if isinstance(e, ast.Starred):
                out.extend(self.iterate(self.eval(e.value, env)))
            else:
                out.append(self.eval(e, env))
        return out

    def ex_Dict(self, n, env):
        d = {}
        for k, v in zip(n.keys, n.values):
            if k is None:
                d.update(self.eval(v, env))
            else:
                kk = self.eval(k, env)
                if isinstance(kk, SConst):
                    kk = self.concretize(kk)
                d[kk] = self.eval(v, env)
        return d

    def ex_JoinedStr(self, n, env):
        parts = []
        for v in n.values:
            if isinstance(v, ast.Constant):
                parts.append(v.value)
            else:
                x = self.eval(v.value, env)
                if isinstance(x, Sym):
                    x = self.concretize(x)
                parts.append(format(x))
        return "".join(parts)

    def ex_NamedExpr(self, n, env):
        v = self.eval(n.value, env)
        self.assign(n.target, v, env)
        return v

    def ex_Lambda(self, n, env):
        return Closure(n, env)

    def ex_IfExp(self, n, env):
        c = self.eval_cond(n.test, env)
        if self.pure and isinstance(c, Sym):
            a = self.eval(n.body, env)
            b = self.eval(n.orelse, env)
            return self.ite(self.zbool(c), a, b)
        if self.truth(c):
            return self.eval(n.body, env)
        return self.eval(n.orelse, env)

    def ite(self, c, a, b):
        if isinstance(a, SConst) or isinstance(b, SConst):
            az = a.z if isinstance(a, SConst) else z3.IntVal(INTERN.id_of(a))
            bz = b.z if isinstance(b, SConst) else z3.IntVal(INTERN.id_of(b))
            doms = []
            for x in (a, b):
                if isinstance(x, SConst):
                    if x.dom is None:
                        doms = None
                        break
                    doms.extend(x.dom)
                else:
                    doms.append(x)
            return SConst(z3.If(c, az, bz), tuple(dict.fromkeys(doms)) if doms is not None else None)
        if isinstance(a, (SBool, bool)) and isinstance(b, (SBool, bool)):
            return SBool(z3.If(c, self.zbool(a), self.zbool(b)))
        if isinstance(a, (SInt, int)) and isinstance(b, (SInt, int)):
            az = a.z if isinstance(a, SInt) else z3.IntVal(a)
            bz = b.z if isinstance(b, SInt) else z3.IntVal(b)
            return SInt(z3.If(c, az, bz))
        if not isinstance(a, Sym) and not isinstance(b, Sym):
            try:
                ia, ib = INTERN.id_of(a), INTERN.id_of(b)
                return SConst(z3.If(c, z3.IntVal(ia), z3.IntVal(ib)), (a, b))
            except TypeError:
                pass
        raise Unsupported("if-expression merging %r / %r in pure context" % (a, b))

    def ex_BoolOp(self, n, env):
        is_and = isinstance(n.op, ast.And)
        if self.pure:
            # operands are evaluated in order; operand k is evaluated under the guard that the earlier
            # ones were truthy (and) / falsy (or), which licenses guarded partial operations
            vals = []
            pushed = 0
            try:
                for sub in n.values:
                    v = self.eval(sub, env)
                    vals.append(v)
                    g = self.zbool_of(v) if isinstance(v, Sym) else z3.BoolVal(bool(v))
                    self.pure_guards.append(g if is_and else z3.Not(g))
                    pushed += 1
            finally:
                for _ in range(pushed):
                    self.pure_guards.pop()
            if not any(isinstance(v, Sym) for v in vals):
                r = vals[0]
                for v in vals[1:]:
                    r = (r and v) if is_and else (r or v)
                return r
            zs = [self.zbool(v) for v in vals]
            return SBool(z3.And(zs) if is_and else z3.Or(zs))
        v = None
        for i, sub in enumerate(n.values):
            v = self.eval(sub, env)
            if i == len(n.values) - 1:
                return v
            t = self.truth(v)
            if is_and and not t:
                return v
            if not is_and and t:
                return v
        return v

    def ex_UnaryOp(self, n, env):
        v = self.eval(n.operand, env)
        if isinstance(n.op, ast.Not):
            if isinstance(v, Sym):
                return self.wrap_bool(z3.Not(self.zbool(v)))
            try:
                return not v
            except NativeOnSym:
                raise Unsupported("not on container with symbolic parts")
        if isinstance(n.op, ast.USub):
            if isinstance(v, SInt):
                return SInt(-v.z)
            return -v
        if isinstance(n.op, ast.UAdd):
            return v
        raise Unsupported("unary op")

    def ex_BinOp(self, n, env):
        return self.binop(n.op, self.eval(n.left, env), self.eval(n.right, env))

    def binop(self, op, a, b, inplace=False):
        import operator
        if isinstance(a, (SInt, SBool)) or isinstance(b, (SInt, SBool)):
            if isinstance(a, (SInt, int, SBool)) and isinstance(b, (SInt, int, SBool)) \
                    and not isinstance(a, str) and not isinstance(b, str):
                az = self.zint(a)
                bz = self.zint(b)
                if isinstance(op, ast.Add):
                    return SInt(az + bz)
                if isinstance(op, ast.Sub):
                    return SInt(az - bz)
                if isinstance(op, ast.Mult):
                    return SInt(az * bz)
                raise Unsupported("integer op %s on symbolic ints" % type(op).__name__)
        if isinstance(op, ast.Mult):
            if isinstance(a, list) and isinstance(b, SInt):
                from . import seqlib
                return seqlib.replicate(self, a, b)
            if isinstance(b, list) and isinstance(a, SInt):
                from . import seqlib
                return seqlib.replicate(self, b, a)
        if isinstance(op, ast.Add) and (isinstance(a, SList) or isinstance(b, SList)):
            from . import seqlib
            return seqlib.concat(self, a, b)
        if isinstance(a, Sym) or isinstance(b, Sym):
            if isinstance(op, ast.Mod) and isinstance(a, str):
                # "fmt" % sym  -> concretize finite-domain constants
                b = self.concretize(b) if isinstance(b, Sym) else b
            else:
                a = self.concretize(a) if isinstance(a, Sym) else a
                b = self.concretize(b) if isinstance(b, Sym) else b
        if isinstance(op, ast.Mod) and isinstance(a, str):
            if isinstance(b, tuple) and any(isinstance(x, Sym) for x in b):
                b = tuple(self.concretize(x) if isinstance(x, Sym) else x for x in b)
        ops = {
            ast.Add: operator.iadd if inplace else operator.add,
            ast.Sub: operator.sub, ast.Mult: operator.mul, ast.Mod: operator.mod,
            ast.Div: operator.truediv, ast.FloorDiv: operator.floordiv, ast.Pow: operator.pow,
            ast.BitOr: operator.or_, ast.BitAnd: operator.and_, ast.BitXor: operator.xor,
        }
        fn = ops.get(type(op))
        if fn is None:
            raise Unsupported("binary operator %s" % type(op).__name__)
        try:
            return fn(a, b)
        except NativeOnSym as e:
            raise Unsupported("native binop touched symbolic value: %s" % e)
        except Exception as e:
            raise Raised(type(e), e.args, obj=e)

    def zint(self, v):
        if isinstance(v, SInt):
            return v.z
        if isinstance(v, SBool):
            return z3.If(v.z, 1, 0)
        if isinstance(v, bool):
            return z3.IntVal(int(v))
        if isinstance(v, int):
            return z3.IntVal(v)
        raise Unsupported("integer view of %r" % (v,))

    def ex_Compare(self, n, env):
        left = self.eval(n.left, env)
        result = None
        for op, rn in zip(n.ops, n.comparators):
            right = self.eval(rn, env)
            r = self.compare(op, left, right)
            if result is None:
                result = r
            else:
                # chained comparison: a < b < c == (a<b) and (b<c) (each operand evaluated once)
                result = self.wrap_bool(z3.And(self.zbool_of(result), self.zbool_of(r))) \
                    if (isinstance(result, Sym) or isinstance(r, Sym)) else (result and r)
            left = right
        return result

    def compare(self, op, a, b):
        if isinstance(op, ast.Eq):
            return self.wrap_bool(self.zbool_of(self.sym_eq(a, b))) if self._symish(a, b) else self._native_eq(a, b)
        if isinstance(op, ast.NotEq):
            if self._symish(a, b):
                return self.wrap_bool(z3.Not(self.zbool_of(self.sym_eq(a, b))))
            return not self._native_eq(a, b)
        if isinstance(op, ast.In):
            return self.contains(a, b)
        if isinstance(op, ast.NotIn):
            r = self.contains(a, b)
            if isinstance(r, Sym):
                return self.wrap_bool(z3.Not(self.zbool(r)))
            return not r
        if isinstance(op, (ast.Is, ast.IsNot)):
            r = self.identity(a, b)
            if isinstance(op, ast.IsNot):
                r = self.wrap_bool(z3.Not(r.z)) if isinstance(r, SBool) else (not r)
            return r
        if isinstance(op, (ast.Lt, ast.LtE, ast.Gt, ast.GtE)):
            if isinstance(a, (SInt, SBool)) or isinstance(b, (SInt, SBool)):
                az, bz = self.zint(a), self.zint(b)
                z = {ast.Lt: az < bz, ast.LtE: az <= bz, ast.Gt: az > bz, ast.GtE: az >= bz}[type(op)]
                return self.wrap_bool(z)
            if isinstance(a, Sym) or isinstance(b, Sym):
                raise Unsupported("ordering comparison on %r, %r" % (a, b))
            import operator
            fn = {ast.Lt: operator.lt, ast.LtE: operator.le, ast.Gt: operator.gt,
                  ast.GtE: operator.ge}[type(op)]
            try:
                return fn(a, b)
            except NativeOnSym as e:
                raise Unsupported("native ordering touched symbolic value")
            except TypeError as e:
                raise Raised(TypeError, e.args, obj=e)
        raise Unsupported("comparison operator %s" % type(op).__name__)

    def _symish(self, a, b):
        return isinstance(a, Sym) or isinstance(b, Sym) or S.deep_has_sym(a) or S.deep_has_sym(b)

    def _native_eq(self, a, b):
        try:
            return a == b
        except NativeOnSym:
            return self.wrap_bool(self.zbool_of(self.sym_eq(a, b)))

    def const_lt(self, a, b):
        """z3 Bool: a < b for finite-domain constants (python ordering of the candidate values)."""
        da = a.dom if isinstance(a, SConst) else (a,)
        db = b.dom if isinstance(b, SConst) else (b,)
        if da is None or db is None:
            raise Unsupported("ordering of open-domain constants")
        az = a.z if isinstance(a, SConst) else z3.IntVal(INTERN.id_of(a))
        bz = b.z if isinstance(b, SConst) else z3.IntVal(INTERN.id_of(b))
        cases = []
        for x in da:
            for y in db:
                try:
                    lt = x < y
                except TypeError as e:
                    raise Raised(TypeError, e.args)
                if lt:
                    cases.append(z3.And(az == INTERN.id_of(x), bz == INTERN.id_of(y)))
        return z3.Or(cases) if cases else z3.BoolVal(False)

    path_lt_const = const_lt

    def key_lt(self, a, b):
        """z3 Bool / bool: a < b for sort keys (constants, ints, tuples thereof)."""
        if isinstance(a, tuple) and isinstance(b, tuple):
            if not a or not b:
                return len(a) < len(b)
            head_lt = self.key_lt(a[0], b[0])
            head_eq = self.sym_eq(a[0], b[0])
            rest = self.key_lt(a[1:], b[1:])
            return z3.Or(self.zbool_of(head_lt), z3.And(self.zbool_of(head_eq), self.zbool_of(rest)))
        if isinstance(a, SConst) or isinstance(b, SConst):
            return self.const_lt(a, b)
        if isinstance(a, (SInt, SBool)) or isinstance(b, (SInt, SBool)):
            return self.zint(a) < self.zint(b)
        if isinstance(a, Sym) or isinstance(b, Sym):
            raise Unsupported("ordering of %r and %r" % (a, b))
        try:
            return a < b
        except TypeError as e:
            raise Raised(TypeError, e.args)

    def identity(self, a, b):
        if isinstance(a, SBool) and (b is True or b is False or b is None):
            return False if b is None else self.wrap_bool(a.z if b else z3.Not(a.z))
        if isinstance(b, SBool) and (a is True or a is False or a is None):
            return False if a is None else self.wrap_bool(b.z if a else z3.Not(b.z))
        if isinstance(a, SConst) and (b is None or isinstance(b, bool)):
            return self.wrap_bool(self.zbool_of(self.sym_eq(a, b)))
        if isinstance(b, SConst) and (a is None or isinstance(a, bool)):
            return self.wrap_bool(self.zbool_of(self.sym_eq(b, a)))
        if isinstance(a, Sym) or isinstance(b, Sym):
            if a is b:
                return True
            if (isinstance(a, Sym) and not isinstance(a, (SConst, SVal))) and (b is None):
                return False
            if (isinstance(b, Sym) and not isinstance(b, (SConst, SVal))) and (a is None):
                return False
            if isinstance(a, SVal) and b is None:
                f = z3.Function("is_none", S.Val, z3.BoolSort())
                return self.wrap_bool(f(a.z))
            raise Unsupported("`is` on %r, %r" % (a, b))
        return a is b

    def ex_Subscript(self, n, env):
        c = self.eval(n.value, env)
        k = self.eval_slice(n.slice, env)
        return self.subscript(c, k)

    def eval_slice(self, sl, env):
        if isinstance(sl, ast.Slice):
            lo = self.eval(sl.lower, env) if sl.lower is not None else None
            hi = self.eval(sl.upper, env) if sl.upper is not None else None
            st = self.eval(sl.step, env) if sl.step is not None else None
            if any(isinstance(x, Sym) for x in (lo, hi, st)):
                return ("slice", lo, hi, st)
            return slice(lo, hi, st)
        return self.eval(sl, env)

    def subscript(self, c, k):
        from . import seqlib
        if isinstance(c, SList):
            return seqlib.slist_subscript(self, c, k)
        if isinstance(c, AbstractObj):
            fn = c._attrs.get("__getitem__")
            if fn is None:
                raise Unsupported("subscript on %r" % (c,))
            return self.call(fn, [k], {})
        if isinstance(c, Sym):
            raise Unsupported("subscript on %r" % (c,))
        if isinstance(k, tuple) and k and k[0] == "slice":
            return seqlib.symbolic_slice(self, c, k)
        if isinstance(c, dict):
            if isinstance(k, SConst):
                k = self.concretize(k)
            elif isinstance(k, Sym):
                raise Unsupported("dict lookup with symbolic key %r" % (k,))
            try:
                if k in c:
                    val = c[k]
                    if isinstance(val, OptField) and self.pure:
                        pz = val.present if not isinstance(val.present, bool) else z3.BoolVal(val.present)
                        if any(g.eq(pz) for g in self.pure_guards) or z3.is_true(z3.simplify(pz)):
                            return val.value
                        raise Unsupported("unguarded access to an optional key in a quantified context")
                    if isinstance(val, OptField):
                        if self.branch(val.present if not isinstance(val.present, bool) else z3.BoolVal(val.present)):
                            c[k] = val.value
                            return val.value
                        del c[k]
                        raise Raised(KeyError, (k,))
                    return val
            except TypeError as e:
                raise Raised(TypeError, e.args)
            raise Raised(KeyError, (k,))
        if isinstance(c, (list, tuple, str)):
            if isinstance(k, SInt):
                return seqlib.concrete_list_sym_index(self, c, k)
            if isinstance(k, Sym):
                k = self.concretize(k)
            try:
                return c[k]
            except IndexError as e:
                raise Raised(IndexError, e.args)
            except TypeError as e:
                raise Raised(TypeError, e.args)
        if is_repo_class(type(c)):
            m = static_lookup(type(c), "__getitem__")
            if m is not _MISSING:
                return self.call(BoundMethod(m, c), [k], {})
        if isinstance(k, Sym):
            raise Unsupported("subscript of %r with symbolic key" % type(c))
        try:
            return c[k]
        except Exception as e:
            raise Raised(type(e), e.args, obj=e)

    def store_subscript(self, c, k, v):
        from . import seqlib
        if isinstance(c, AbstractObj):
            fn = c._attrs.get("__setitem__")
            if fn is None:
                raise Unsupported("item assignment on %r" % (c,))
            return self.call(fn, [k, v], {})
        if isinstance(c, SList):
            return seqlib.slist_store(self, c, k, v)
        if isinstance(c, Sym):
            raise Unsupported("item assignment on symbolic %r" % (c,))
        if isinstance(c, dict):
            if isinstance(k, SConst):
                k = self.concretize(k)
            elif isinstance(k, Sym):
                raise Unsupported("dict store with symbolic key")
            self.path.trace.append(("setitem", id(c), k, v))
            c[k] = v
            return
        if isinstance(c, list):
            if isinstance(k, SInt):
                return seqlib.concrete_list_sym_store(self, c, k, v)
            if isinstance(k, Sym):
                k = self.concretize(k)
            try:
                c[k] = v
            except IndexError as e:
                raise Raised(IndexError, e.args)
            return
        if is_repo_class(type(c)):
            m = static_lookup(type(c), "__setitem__")
            if m is not _MISSING:
                return self.call(BoundMethod(m, c), [k, v], {})
        if not isinstance(k, Sym) and not S.deep_has_sym(v) and hasattr(type(c), "__setitem__"):
            # a native (third-party) container holding concrete data
            try:
                c[k] = v
            except Exception as e:
                raise Raised(type(e), e.args, obj=e)
            return
        raise Unsupported("item assignment on %r" % type(c))

    def del_subscript(self, c, k):
        if isinstance(c, SList):
            from . import seqlib
            return seqlib.slist_delete(self, c, k)
        if isinstance(c, (dict, list)) and not isinstance(k, Sym):
            try:
                del c[k]
            except (KeyError, IndexError) as e:
                raise Raised(type(e), e.args)
            return
        raise Unsupported("del on %r[%r]" % (type(c), k))

    def ex_Call(self, n, env):
        # super(Class, self).method(...)
        if (isinstance(n.func, ast.Attribute) and isinstance(n.func.value, ast.Call)
                and isinstance(n.func.value.func, ast.Name) and n.func.value.func.id == "super"):
            sargs = [self.eval(a, env) for a in n.func.value.args]
            if len(sargs) == 0:
                # zero-argument form: the class the running method is defined in, and its first parameter
                fdef, qn = env.func_def, env.func_name or ""
                if fdef is None or "." not in qn or not fdef.args.args:
                    raise Unsupported("zero-argument super() outside a method")
                owner = None
                for part in qn.rsplit(".", 1)[0].split("."):
                    if part == "<locals>":
                        owner = None
                        break
                    owner = env.globals.get(part) if owner is None else getattr(owner, part, None)
                if not isinstance(owner, type):
                    raise Unsupported("zero-argument super(): class of %s not found" % qn)
                sargs = [owner, env.lookup(fdef.args.args[0].arg)]
            if len(sargs) != 2:
                raise Unsupported("one-argument super()")
            cls, obj = sargs
            mro = type(obj).__mro__
            nxt = mro[mro.index(cls) + 1:]
            target = _MISSING
            for k in nxt:
                if n.func.attr in k.__dict__:
                    target = k.__dict__[n.func.attr]
                    break
            if target is _MISSING:
                raise Raised(AttributeError, (n.func.attr,))
            args, kwargs = self.eval_args(n, env)
            if isinstance(target, types.FunctionType):
                return self.call(target, [obj] + args, kwargs, n)
            return target(obj, *args, **kwargs)
        f = self.eval(n.func, env)
        args, kwargs = self.eval_args(n, env)
        return self.call(f, args, kwargs, n)

    def eval_args(self, n, env):
        args = []
        for a in n.args:
            if isinstance(a, ast.Starred):
                v = self.eval(a.value, env)
                if isinstance(v, Sym):
                    args.append(("*", v))
                else:
                    args.extend(self.iterate(v))
            else:
                args.append(self.eval(a, env))
        kwargs = {}
        for kw in n.keywords:
            if kw.arg is None:
                kwargs.update(self.eval(kw.value, env))
            else:
                kwargs[kw.arg] = self.eval(kw.value, env)
        return args, kwargs

    # comprehensions ---------------------------------------------------------------
    def ex_ListComp(self, n, env):
        return self.comprehension(n, env, "list")

    def ex_SetComp(self, n, env):
        r = self.comprehension(n, env, "list")
        if isinstance(r, Sym):
            raise Unsupported("set comprehension over symbolic list")
        from . import seqlib
        return seqlib.make_set(self, r)

    def ex_GeneratorExp(self, n, env):
        # evaluated eagerly (assumption: element expressions have no order-sensitive effects)
        return self.comprehension(n, env, "list")

    def ex_DictComp(self, n, env):
        return self.comprehension(n, env, "dict")

    def comprehension(self, n, env, kind):
        from . import seqlib
        gens = n.generators
        if any(g.is_async for g in gens):
            raise Unsupported("async comprehension")
        first = self.eval(gens[0].iter, env)
        if isinstance(first, SList) or (isinstance(first, tuple) and first and first[0] == "enumerate"
                                        and isinstance(first[1], SList)):
            if len(gens) != 1 or kind != "list":
                raise Unsupported("nested/dict comprehension over symbolic list")
            return seqlib.slist_comprehension(self, n, gens[0], first, env)
        out = [] if kind == "list" else {}

        def rec(gi, e):
            g = gens[gi]
            it = first if gi == 0 else self.eval(g.iter, e)
            if isinstance(it, Sym):
                raise Unsupported("comprehension over symbolic %r" % (it,))
            for x in self.iterate(it):
                ce = e.child()
                self.assign(g.target, x, ce)
                ok = True
                for cond in g.ifs:
                    if not self.truth(self.eval(cond, ce)):
                        ok = False
                        break
                if not ok:
                    continue
                if gi + 1 < len(gens):
                    rec(gi + 1, ce)
                elif kind == "list":
                    out.append(self.eval(n.elt, ce))
                else:
                    k = self.eval(n.key, ce)
                    if isinstance(k, SConst):
                        k = self.concretize(k)
                    out[k] = self.eval(n.value, ce)

        rec(0, env)
        return out

    # ---------------------------------------------------------------- running pieces of functions
    def run_function(self, func, args, kwargs=None):
        """Interpret func (a real function object or classmethod-bound) from its real source."""
        return self.call(func, list(args), kwargs or {})
