"""Units, obligations, known findings, evidence, and the parallel runner."""
import hashlib
import importlib
import json
import multiprocessing
import os
import random
import subprocess
import sys
import time
import traceback

import z3

from . import engine as E
from . import sym as S
from .sym import Unsupported

VERIF = os.path.dirname(os.path.dirname(os.path.abspath(__file__)))
REPO = E.REPO

EXIT_OK, EXIT_VIOLATION, EXIT_UNDECIDED, EXIT_FAULT = 0, 1, 2, 3


class Finding(object):
    def __init__(self, d):
        self.id = d["id"]
        self.properties = d.get("properties") or [d["property"]]
        self.obligations = d["obligations"]
        self.what = d["what_fails"]
        self.status = d.get("status", "open")
        self.excuse_name = d.get("excuse")
        self.witness = d.get("witness")
        self.site = d.get("site")

    @property
    def open(self):
        return self.status == "open"


def load_findings():
    p = os.path.join(VERIF, "known_findings.json")
    if not os.path.exists(p):
        return []
    with open(p) as f:
        return [Finding(d) for d in json.load(f)]


def excuse_fn(finding):
    mod = importlib.import_module("findings.excuses")
    return getattr(mod, finding.excuse_name)


class Unit(object):
    """A proof harness: runs real functions from /repo symbolically and states obligations."""

    name = "unit"
    functions = []       # qualified names of the functions under contract in this unit
    inlined = []         # functions interpreted from source as part of those (not separately specified)
    assumptions = []     # unchecked assumptions the obligations depend on
    trusted = []         # trusted / external code
    obligations = {}     # name -> {"props": [...], "text": "..."}
    timeout_ms = 10000
    bounded = False      # True: obligations hold for a stated finite bound only (never counted as proved)

    def splits(self, tier):
        return [None]

    def run_split(self, ctx, split):
        raise NotImplementedError

    def native(self, inputs):
        """Run the real code natively on concrete inputs; return dict of observed values."""
        return None

    def clause(self, name):
        return None


class Ctx(object):
    """Per-split context handed to a unit: obligation bookkeeping with known-finding excuses."""

    def __init__(self, eng, unit, findings, tier, seed):
        self.eng = eng
        self.unit = unit
        self.tier = tier
        self.seed = seed
        self.rng = random.Random(seed)
        self.findings = [f for f in findings if f.open]
        self.records = []       # plain dicts (picklable)
        self.crosschecks = 0
        self.cross_mismatch = []
        self.canaries = 0
        self.canaries_refuted = 0
        self.bounded = []
        self.bounded_mode = bool(getattr(unit, "bounded", False))
        self.cvc5_budget = {}
        self.cvc5_results = []

    def _rec(self, name, status, **kw):
        r = {"name": name, "status": status, "unit": self.unit.name, "bounded": self.bounded_mode}
        r.update(kw)
        self.records.append(r)
        return r

    def oblige(self, name, claim, values=None, info=None):
        """pc => claim, modulo the excuses of open known findings registered for `name`."""
        eng = self.eng
        if name not in self.unit.obligations:
            raise E.Unsupported("obligation %s not declared by unit %s" % (name, self.unit.name))
        fs = [f for f in self.findings if name in f.obligations]
        cz = eng.zbool_of(claim) if not isinstance(claim, bool) else z3.BoolVal(claim)
        excuses = []
        for f in fs:
            ez = excuse_fn(f)(values)
            ez = eng.zbool_of(ez) if not isinstance(ez, bool) else z3.BoolVal(ez)
            excuses.append((f, ez))
        t0 = time.time()
        main = z3.Or([cz] + [ez for _, ez in excuses]) if excuses else cz
        recheck = self.tier == "thorough" and self.cvc5_budget.get(name, 0) < 3
        eng.keep_smt2 = recheck
        res = eng.oblige(name, main, info=info)
        eng.keep_smt2 = False
        if res.status == "discharged":
            extra = {}
            if recheck and res.vc_smt2:
                self.cvc5_budget[name] = self.cvc5_budget.get(name, 0) + 1
                verdict = cvc5_recheck(res.vc_smt2, timeout_s=30)
                extra["cvc5"] = verdict
                self.cvc5_results.append((name, verdict))
            self._rec(name, "discharged", time_s=res.time_s, sample=info, **extra)
        elif res.status == "failed":
            self._rec(name, "failed", model=_jsonable(res.model), time_s=res.time_s, smt2=res.vc_smt2,
                      sample=info)
        else:
            self._rec(name, "unknown", time_s=res.time_s, smt2=res.vc_smt2, reason=res.reason)
        eng.results.pop()
        for f, ez in excuses:
            r, m, _ = eng._check(z3.Not(cz), ez)
            if r == z3.sat:
                self._rec(name, "known", finding=f.id, model=_jsonable(eng.model_inputs(m)))
        return res.status

    def canary(self):
        """`pc => False` must be refuted (pc satisfiable): vacuity guard."""
        r, _, _ = self.eng._check()
        if r == z3.unknown:
            # quantified path conditions: satisfiability undecided, not evidence of vacuity
            self.canaries_unknown = getattr(self, "canaries_unknown", 0) + 1
            return r
        self.canaries += 1
        if r == z3.sat:
            self.canaries_refuted += 1
        return r

    def crosscheck(self, predicted, rate=1.0):
        """Compare the engine's predicted outcome with CPython on a model of the path condition."""
        if self.unit.native is Unit.native:
            return
        if rate < 1.0 and self.rng.random() > rate:
            return
        eng = self.eng
        r, m, _ = eng._check(*eng.small_lists())
        if r != z3.sat:
            return
        inputs = eng.model_inputs(m)
        pred = {k: eng.model_value(m, v) for k, v in predicted.items()}
        try:
            obs = self.unit.native(inputs)
        except Exception as e:  # harness failure is a checker fault, reported as mismatch
            self.cross_mismatch.append({"inputs": _jsonable(inputs), "error": repr(e),
                                        "trace": traceback.format_exc()[-800:]})
            return
        if obs is None:
            return
        self.crosschecks += 1
        bad = {k: (pred[k], obs.get(k)) for k in pred if _norm(pred[k]) != _norm(obs.get(k))}
        if bad:
            self.cross_mismatch.append({"inputs": _jsonable(inputs), "predicted_vs_observed": _jsonable(bad)})


def _norm(v):
    if isinstance(v, tuple):
        return [_norm(x) for x in v]
    if isinstance(v, list):
        return [_norm(x) for x in v]
    return v


def _jsonable(v):
    if isinstance(v, dict):
        return {str(k): _jsonable(x) for k, x in v.items()}
    if isinstance(v, (list, tuple, set, frozenset)):
        return [_jsonable(x) for x in v]
    if isinstance(v, (str, int, float, bool)) or v is None:
        return v
    return repr(v)


# --------------------------------------------------------------------------------------------
# worker
# --------------------------------------------------------------------------------------------
def _worker(job):
    unit_mod, unit_cls, split, tier, seed, timeout_ms = job
    t0 = time.time()
    out = {"unit": unit_cls, "split": _jsonable(split), "records": [], "paths": 0, "infeasible": 0,
           "solver_time": 0.0, "solver_calls": 0, "error": None, "unsupported": None,
           "crosschecks": 0, "cross_mismatch": [], "canaries": 0, "canaries_refuted": 0,
           "covers": {}, "interpreted": [], "bounded": [], "cvc5": []}
    try:
        mod = importlib.import_module(unit_mod)
        unit = getattr(mod, unit_cls)()
        eng = E.Engine(timeout_ms=timeout_ms)
        ctx = Ctx(eng, unit, load_findings(), tier, seed)
        try:
            unit.run_split(ctx, split)
        except Unsupported as u:
            out["unsupported"] = "%s [%s split=%r]" % (u, unit_cls, split)
        except AttributeError as ae:
            # a function / class / constant a contract is anchored on no longer exists in /repo:
            # undecided (exit 2), never a verdict and not a checker crash
            msg = str(ae)
            if "orquesta" in msg or "type object" in msg or "module" in msg:
                out["unsupported"] = "contract anchor missing in /repo: %s [%s split=%r]" % (msg, unit_cls, split)
            else:
                raise
        if eng.escaped:
            # the real code raised where the contract says it returns: every obligation of this unit that
            # this split could not establish is reported as failed (the exception is the counterexample)
            done = {r["name"] for r in ctx.records if r["status"] in ("discharged", "failed")}
            for name in unit.obligations:
                if name not in done:
                    ctx._rec(name, "failed", model={"unexpected_exception": eng.escaped[0], "split": _jsonable(split)},
                             sample={"unexpected_exception": eng.escaped[:3]})
        out["records"] = compress_records(ctx.records)
        out["paths"] = eng.n_paths
        out["infeasible"] = eng.n_infeasible
        out["solver_time"] = eng.solver_time
        out["solver_calls"] = eng.solver_calls
        out["crosschecks"] = ctx.crosschecks
        out["cross_mismatch"] = ctx.cross_mismatch
        out["canaries"] = ctx.canaries
        out["canaries_refuted"] = ctx.canaries_refuted
        out["covers"] = eng.covers
        out["interpreted"] = sorted(eng.functions_interpreted)
        out["bounded"] = ctx.bounded
        out["cvc5"] = ctx.cvc5_results
    except Exception:
        out["error"] = traceback.format_exc()
    out["wall"] = time.time() - t0
    return out


def compress_records(records):
    """One aggregated record per discharged obligation name (count + first sample + time)."""
    agg = {}
    out = []
    for r in records:
        if r["status"] == "discharged":
            a = agg.get((r["name"], r.get("bounded", False)))
            if a is None:
                a = agg[(r["name"], r.get("bounded", False))] = {
                    "name": r["name"], "status": "discharged", "unit": r["unit"], "bounded": r.get("bounded", False),
                    "count": 0, "time_s": 0.0, "sample": r.get("sample")}
                out.append(a)
            a["count"] += 1
            a["time_s"] += r.get("time_s", 0.0) or 0.0
        else:
            r = dict(r)
            r["count"] = 1
            out.append(r)
    return out


def source_hash(qualname):
    """sha256 of the source text of a function in the /repo working tree."""
    try:
        parts = qualname.split(".")
        for i in range(len(parts), 0, -1):
            modname = ".".join(parts[:i])
            try:
                mod = importlib.import_module(modname)
            except ImportError:
                continue
            obj = mod
            for p in parts[i:]:
                obj = obj.__dict__[p] if isinstance(obj, type) and p in obj.__dict__ else getattr(obj, p)
            if isinstance(obj, (classmethod, staticmethod)):
                obj = obj.__func__
            if isinstance(obj, property):
                obj = obj.fget
            obj = getattr(obj, "__func__", obj)
            import inspect
            src = inspect.getsource(obj)
            return hashlib.sha256(src.encode()).hexdigest()[:16]
    except Exception as e:
        return "unavailable(%s)" % type(e).__name__
    return "unavailable"


def tree_key(tier, seed):
    """Content hash of everything a unit's result depends on: /repo's orquesta sources as imported,
    the framework, the contracts, the findings, tier and seed."""
    import orquesta
    h = hashlib.sha256()
    roots = [os.path.dirname(os.path.abspath(orquesta.__file__)), os.path.join(VERIF, "pyvc"),
             os.path.join(VERIF, "contracts"), os.path.join(VERIF, "findings")]
    for root in roots:
        for dp, dn, fn in sorted(os.walk(root)):
            dn[:] = sorted(d for d in dn if d not in ("__pycache__", "tests"))
            for f in sorted(fn):
                if f.endswith((".py", ".json", ".yaml")):
                    p = os.path.join(dp, f)
                    h.update(p.encode())
                    with open(p, "rb") as fh:
                        h.update(fh.read())
    kf = os.path.join(VERIF, "known_findings.json")
    if os.path.exists(kf):
        h.update(open(kf, "rb").read())
    h.update(("%s|%s" % (tier, seed)).encode())
    return h.hexdigest()[:24]


def run_units(units, tier, seed, jobs=None):
    """units: list of (module, classname).  Returns (worker outputs, names of units served from cache).

    Unit results are a pure function of the sources hashed by tree_key(); within one tree they are
    computed once and shared between the property checks that use the same unit (cache under
    .cache/, never committed; VERIF_NOCACHE=1 disables it)."""
    use_cache = not os.environ.get("VERIF_NOCACHE")
    key = tree_key(tier, seed) if use_cache else None
    cdir = os.path.join(os.environ.get("VERIF_OUT", VERIF), ".cache")
    outs, cached, tasks, todo = [], [], [], []
    for mod, cls in units:
        cpath = os.path.join(cdir, "%s-%s.json" % (cls, key)) if use_cache else None
        if cpath and os.path.exists(cpath):
            try:
                with open(cpath) as f:
                    outs.extend(json.load(f))
                cached.append(cls)
                continue
            except Exception:
                pass
        u = getattr(importlib.import_module(mod), cls)()
        tmo = u.timeout_ms * (6 if tier == "thorough" else 1)
        todo.append((cls, cpath))
        for sp in u.splits(tier):
            tasks.append((mod, cls, sp, tier, seed, tmo))
    if tasks:
        n = jobs or min(16, os.cpu_count() or 4, len(tasks))
        if n <= 1:
            res = [_worker(t) for t in tasks]
        else:
            ctxm = multiprocessing.get_context("fork")
            # workers are recycled: z3 never frees its term table, so a long-lived worker grows
            with ctxm.Pool(n, maxtasksperchild=8) as pool:
                res = pool.map(_worker, tasks, chunksize=1)
        outs.extend(res)
        if use_cache:
            os.makedirs(cdir, exist_ok=True)
            for cls, cpath in todo:
                mine = [o for o in res if o["unit"] == cls]
                if any(o["error"] for o in mine):
                    continue
                tmp = cpath + ".tmp%d" % os.getpid()
                with open(tmp, "w") as f:
                    json.dump(mine, f, default=str)
                os.replace(tmp, cpath)
            # keep the cache small: drop entries of other trees
            for f in os.listdir(cdir):
                if key not in f and not f.endswith(".tmp"):
                    try:
                        if time.time() - os.path.getmtime(os.path.join(cdir, f)) > 3600:
                            os.remove(os.path.join(cdir, f))
                    except OSError:
                        pass
    return outs, cached


def cvc5_recheck(smt2, timeout_s=20):
    """Independent re-check of one VC with /usr/bin/cvc5. Returns 'unsat' | 'sat' | 'unknown'."""
    try:
        p = subprocess.run(["/usr/bin/cvc5", "--lang=smt2", "--tlimit=%d" % (timeout_s * 1000), "-"],
                           input=smt2 + "\n(check-sat)\n" if "(check-sat)" not in smt2 else smt2,
                           capture_output=True, text=True, timeout=timeout_s + 5)
        o = p.stdout.strip().splitlines()
        for line in o:
            if line.strip() in ("sat", "unsat", "unknown"):
                return line.strip()
        return "unknown"
    except Exception:
        return "unknown"
