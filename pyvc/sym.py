"""Symbolic value layer of pyvc.

Concrete Python values stay real Python objects.  Only genuinely symbolic data is wrapped:

  SBool   z3 Bool
  SInt    z3 Int (mathematical: exact for Python ints)
  SConst  a value ranging over *interned Python constants* (strings, None, True/False ...),
          encoded as a z3 Int id; `dom` is the finite candidate set or None (open domain)
  SVal    opaque Python value (uninterpreted sort Val): equality, truthiness and isinstance are
          uninterpreted
  SList   list of symbolic length: (length, getter(idx) -> value)

Native Python operators on these objects raise NativeOnSym so that a symbolic value can never be
silently handled by CPython code the engine did not interpret.
"""
import itertools
import z3


class NativeOnSym(Exception):
    pass


class Unsupported(Exception):
    """Construct outside the verified subset: check exits 2 (undecided), never a violation."""


Val = z3.DeclareSort("Val")
truthy_val = z3.Function("truthy", Val, z3.BoolSort())
_fresh = itertools.count()


def fresh_name(prefix):
    return "%s!%d" % (prefix, next(_fresh))


class Interner(object):
    """Bijection between hashable Python constants and small ints (type-tagged: True != 1)."""

    def __init__(self):
        self.ids = {}
        self.vals = []

    def id_of(self, c):
        k = (type(c).__name__, c)
        if k not in self.ids:
            self.ids[k] = len(self.vals)
            self.vals.append(c)
        return self.ids[k]

    def val_of(self, i):
        return self.vals[i]


INTERN = Interner()


class Sym(object):
    __slots__ = ()

    def __bool__(self):
        raise NativeOnSym("bool() of %r" % (self,))

    def __eq__(self, other):
        if self is other:
            return True
        raise NativeOnSym("== on %r" % (self,))

    def __ne__(self, other):
        raise NativeOnSym("!= on %r" % (self,))

    def __hash__(self):
        return id(self)

    def __len__(self):
        raise NativeOnSym("len() of %r" % (self,))

    def __iter__(self):
        raise NativeOnSym("iter() of %r" % (self,))

    def __contains__(self, x):
        raise NativeOnSym("in on %r" % (self,))


class SBool(Sym):
    __slots__ = ("z",)

    def __init__(self, z):
        self.z = z

    def __repr__(self):
        return "SBool(%s)" % self.z


class SInt(Sym):
    __slots__ = ("z",)

    def __init__(self, z):
        self.z = z

    def __repr__(self):
        return "SInt(%s)" % self.z


class SConst(Sym):
    __slots__ = ("z", "dom")

    def __init__(self, z, dom=None):
        self.z = z
        self.dom = tuple(dom) if dom is not None else None

    def __repr__(self):
        return "SConst(%s in %s)" % (self.z, self.dom)

    def dom_constraint(self):
        if self.dom is None:
            return z3.BoolVal(True)
        return z3.Or([self.z == INTERN.id_of(c) for c in self.dom])


class SVal(Sym):
    __slots__ = ("z",)

    def __init__(self, z):
        self.z = z

    def __repr__(self):
        return "SVal(%s)" % self.z


class SList(Sym):
    """Symbolic-length list.  `get(i)` takes a z3 Int (or python int) and returns a value."""

    __slots__ = ("length", "get", "name", "tainted", "meta")

    def __init__(self, length, get, name="list", tainted=False, meta=None):
        self.length = length
        self.get = get
        self.name = name
        self.tainted = tainted
        self.meta = meta

    def __repr__(self):
        return "SList(%s, len=%s)" % (self.name, self.length)


class OptField(object):
    """Value of a dict key whose *presence* is symbolic: (present: z3 Bool, value)."""

    __slots__ = ("present", "value")

    def __init__(self, present, value):
        self.present = present
        self.value = value

    def __repr__(self):
        return "OptField(%s, %r)" % (self.present, self.value)

    def __eq__(self, other):
        if self is other:
            return True
        raise NativeOnSym("== on optional field")

    def __hash__(self):
        return id(self)

    def __bool__(self):
        raise NativeOnSym("bool() of optional field")


def is_sym(v):
    return isinstance(v, Sym)


def mk_bool(name):
    return SBool(z3.Bool(fresh_name(name)))


def mk_int(name):
    return SInt(z3.Int(fresh_name(name)))


def mk_const(name, dom=None):
    return SConst(z3.Int(fresh_name(name)), dom)


def mk_val(name):
    return SVal(z3.Const(fresh_name(name), Val))


def deep_has_sym(v, _depth=0, _seen=None):
    """True if a (nested) container holds a symbolic value."""
    if isinstance(v, (Sym, OptField)):
        return True
    if _depth > 6:
        return False
    if isinstance(v, (list, tuple, set, frozenset)):
        return any(deep_has_sym(x, _depth + 1) for x in v)
    if isinstance(v, dict):
        return any(deep_has_sym(x, _depth + 1) for x in v.values()) or any(
            isinstance(k, Sym) for k in v.keys()
        )
    return False
