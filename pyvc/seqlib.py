"""Models of Python builtins and the sequence library (DESIGN Appendix A).

Every axiom introduced here is a theorem of CPython's list semantics; `selftest.py` cross-checks
each of them against CPython on all lists of length <= 5 over a small alphabet.
"""
import ast
import builtins
import itertools

import z3

from . import sym as S
from .sym import SBool, SConst, SInt, SList, SVal, Sym, Unsupported, NativeOnSym, INTERN, OptField

NOT_HANDLED = object()


def _E():
    from . import engine
    return engine


# --------------------------------------------------------------------------------------------
# structural if-then-else on values of the same shape
# --------------------------------------------------------------------------------------------
def merge(eng, c, a, b):
    """Value equal to a if c else b (c: z3 Bool)."""
    c = z3.simplify(c)
    if z3.is_true(c):
        return a
    if z3.is_false(c):
        return b
    if a is b:
        return a
    if isinstance(a, OptField) or isinstance(b, OptField):
        pa = a.present if isinstance(a, OptField) else True
        pb = b.present if isinstance(b, OptField) else True
        va = a.value if isinstance(a, OptField) else a
        vb = b.value if isinstance(b, OptField) else b
        pz = lambda q: z3.BoolVal(q) if isinstance(q, bool) else q
        return OptField(z3.simplify(z3.If(c, pz(pa), pz(pb))), merge(eng, c, va, vb))
    if isinstance(a, dict) and isinstance(b, dict) and set(a) == set(b):
        return {k: merge(eng, c, a[k], b[k]) for k in a}
    if isinstance(a, tuple) and isinstance(b, tuple) and len(a) == len(b):
        return tuple(merge(eng, c, x, y) for x, y in zip(a, b))
    if isinstance(a, SVal) and isinstance(b, SVal):
        return SVal(z3.If(c, a.z, b.z))
    if not isinstance(a, Sym) and not isinstance(b, Sym):
        try:
            if type(a) is type(b) and a == b:
                return a
        except NativeOnSym:
            pass
    return eng.ite(c, a, b)


# --------------------------------------------------------------------------------------------
# symbolic list construction helpers
# --------------------------------------------------------------------------------------------
def fresh_slist(eng, name, elem, length=None):
    """Fresh symbolic list; elem(i_z3) builds the element at index i from uninterpreted arrays."""
    n = z3.Int(S.fresh_name(name + "_len")) if length is None else length
    eng.assume(n >= 0)
    return SList(n, elem, name)


def as_slist(eng, xs):
    if isinstance(xs, SList):
        return xs
    if isinstance(xs, (list, tuple)):
        items = list(xs)

        def get(i, items=items):
            if not items:
                raise Unsupported("element of empty list")
            # an index outside the list is only ever asked for under a guard that excludes it
            # (concat / merge evaluate both sides): any element will do there
            if isinstance(i, int):
                if -len(items) <= i < 0:
                    return items[i]
                return items[min(max(i, 0), len(items) - 1)]
            if z3.is_int_value(i):
                return items[min(max(i.as_long(), 0), len(items) - 1)]
            r = items[-1]
            for k in range(len(items) - 2, -1, -1):
                r = merge(eng, i == k, items[k], r)
            return r
        return SList(z3.IntVal(len(items)), get, "lit")
    raise Unsupported("not a list: %r" % (xs,))


def zidx(i):
    if isinstance(i, SInt):
        return i.z
    if isinstance(i, bool):
        return z3.IntVal(int(i))
    if isinstance(i, int):
        return z3.IntVal(i)
    if isinstance(i, z3.ArithRef):
        return i
    raise Unsupported("index %r" % (i,))


class FilterInfo(object):
    """Book-keeping for the cardinality lemmas between filters (Appendix A, Card)."""

    def __init__(self, base_len, pred, rlen):
        self.base_len = base_len
        self.pred = pred  # i_z3 -> z3 Bool
        self.rlen = rlen


def pred_at(eng, fn_elem_to_val, xs, i):
    """z3 Bool of truth(fn(xs[i])) evaluated in pure mode."""
    eng.pure += 1
    bound = isinstance(i, z3.ExprRef) and not z3.is_int_value(i)
    if bound:
        eng.pure_vars.append(i)
        for cst in _free_consts(i):
            if cst.get_id() in eng.bound_ids:
                eng.pure_vars.append(cst)
    try:
        v = fn_elem_to_val(xs.get(i))
        return eng.zbool_of(v if not isinstance(v, (bool,)) else v)
    finally:
        eng.pure -= 1
        if bound:
            del eng.pure_vars[eng.pure_vars.index(i):]


def _free_consts(expr):
    out, seen, stack = [], set(), [expr]
    while stack:
        x = stack.pop()
        if x.get_id() in seen:
            continue
        seen.add(x.get_id())
        if z3.is_const(x) and x.decl().kind() == z3.Z3_OP_UNINTERPRETED:
            out.append(x)
        elif z3.is_app(x):
            stack.extend(x.children())
    return out


def bvar(eng, name):
    """fresh bound variable (registered so that assumptions mentioning it are rejected)"""
    v = z3.Int(S.fresh_name(name))
    eng.bound_ids.add(v.get_id())
    return v


JCANON = z3.Int("J!canon")
_JCANON_ID = JCANON.get_id()


def _flatten(v, path=()):
    """Scalar leaves of a value: list of (path, kind, z3expr, extra) or None if not nameable."""
    if isinstance(v, OptField):
        return None
    if isinstance(v, SConst):
        return [(path, "const", v.z, v.dom)]
    if isinstance(v, SInt):
        return [(path, "int", v.z, None)]
    if isinstance(v, SBool):
        return [(path, "bool", v.z, None)]
    if isinstance(v, SVal):
        return [(path, "val", v.z, None)]
    if isinstance(v, dict):
        out = []
        for k in v:
            sub = _flatten(v[k], path + (("d", k),))
            if sub is None:
                return None
            out.extend(sub)
        return out
    if isinstance(v, tuple):
        out = []
        for k, x in enumerate(v):
            sub = _flatten(x, path + (("t", k),))
            if sub is None:
                return None
            out.extend(sub)
        return out
    if isinstance(v, Sym):
        return None
    try:
        hash(v)
    except TypeError:
        return None
    return [(path, "py", v, None)]


def _rebuild(template, leaves, j):
    """Rebuild a value shaped like `template` with leaf functions applied to index j."""
    it = iter(leaves)

    def rec(v):
        if isinstance(v, dict):
            return {k: rec(v[k]) for k in v}
        if isinstance(v, tuple):
            return tuple(rec(x) for x in v)
        kind, f, extra = next(it)
        if kind == "const":
            return SConst(f(j), extra)
        if kind == "int":
            return SInt(f(j))
        if kind == "bool":
            return SBool(f(j))
        if kind == "val":
            return SVal(f(j))
        return f
    return rec(template)


def named(eng, xs, hint="lst"):
    """Give the elements of a symbolic list fresh function symbols (struct of arrays) with
    definitional axioms  forall J. f(J) = <element expression at J>.  Semantically the identity;
    identical element expressions share their function symbols within a path, so that the code side
    and the spec side of an obligation talk about the same terms (cheap quantifier instantiation)."""
    try:
        eng.pure += 1
        try:
            elem = xs.get(JCANON)
        finally:
            eng.pure -= 1
    except Unsupported:
        return xs
    leaves = _flatten(elem)
    if leaves is None:
        return xs
    key = (z3.simplify(xs.length).sexpr(),) + tuple(
        (p, k, (e.sexpr() if k != "py" else repr(e))) for p, k, e, _ in leaves)
    memo = eng.path.notes.setdefault("named", {})
    if key in memo:
        return memo[key]
    fl = []
    trivial = True
    for p, kind, e, extra in leaves:
        if kind == "py":
            fl.append((kind, e, extra))
            continue
        # already a plain application f(J): keep the symbol
        if z3.is_app(e) and e.num_args() == 1 and e.arg(0).eq(JCANON) and e.decl().kind() == z3.Z3_OP_UNINTERPRETED:
            d = e.decl()
            fl.append((kind, (lambda j, d=d: d(zidx(j))), extra))
            continue
        trivial = False
        f = z3.Function(S.fresh_name(hint), z3.IntSort(), e.sort())
        eng.assume(z3.ForAll([JCANON], f(JCANON) == e, patterns=[f(JCANON)]))
        fl.append((kind, (lambda j, f=f: f(zidx(j))), extra))
    out = SList(xs.length, lambda j: _rebuild(elem, fl, zidx(j)), hint, xs.tainted)
    memo[key] = out
    eng.path.notes.setdefault("keepalive", []).append(out)
    return out


def slist_filter(eng, xs, pred_fn, name="flt"):
    """[x for x in xs if pred_fn(x)]  — order-preserving selection (Appendix A `filter`).

    The emptiness facts are asserted eagerly; the index-function axioms (iota / kappa) only when an
    element of the result is accessed; the cardinality lemmas only when a unit asks for them."""
    n = xs.length
    r = z3.Int(S.fresh_name(name + "_len"))
    i = bvar(eng, "i")

    def P(ix):
        return pred_at(eng, pred_fn, xs, ix)

    eng.assume(z3.And(r >= 0, r <= n))
    w = z3.Int(S.fresh_name("w"))
    eng.assume(z3.Implies(r > 0, z3.And(0 <= w, w < n, P(w))))
    eng.assume(z3.ForAll([i], z3.Implies(z3.And(0 <= i, i < n, P(i)), r > 0)))
    # all elements satisfy P  <=>  r = n   (witness form)
    u = z3.Int(S.fresh_name("u"))
    eng.assume(z3.Implies(r < n, z3.And(0 <= u, u < n, z3.Not(P(u)))))
    eng.assume(z3.Implies(r == n, z3.ForAll([i], z3.Implies(z3.And(0 <= i, i < n), P(i)))))
    info = FilterInfo(n, P, r)
    state = {"mat": None}

    def materialize():
        if state["mat"] is not None:
            return state["mat"]
        iota = z3.Function(S.fresh_name(name + "_iota"), z3.IntSort(), z3.IntSort())
        kappa = z3.Function(S.fresh_name(name + "_kappa"), z3.IntSort(), z3.IntSort())
        j = bvar(eng, "j")
        j2 = bvar(eng, "j2")
        i2 = bvar(eng, "i2")
        eng.assume(z3.ForAll([j], z3.Implies(z3.And(0 <= j, j < r),
                                             z3.And(0 <= iota(j), iota(j) < n, P(iota(j)),
                                                    kappa(iota(j)) == j)),
                             patterns=[iota(j)]))
        eng.assume(z3.ForAll([j, j2], z3.Implies(z3.And(0 <= j, j < j2, j2 < r), iota(j) < iota(j2)),
                             patterns=[z3.MultiPattern(iota(j), iota(j2))]))
        eng.assume(z3.ForAll([i], z3.Implies(z3.And(0 <= i, i < n, P(i)),
                                             z3.And(0 <= kappa(i), kappa(i) < r, iota(kappa(i)) == i)),
                             patterns=[kappa(i)]))
        eng.assume(z3.ForAll([i, i2], z3.Implies(z3.And(0 <= i, i < i2, i2 < n, P(i), P(i2)),
                                                 kappa(i) < kappa(i2)),
                             patterns=[z3.MultiPattern(kappa(i), kappa(i2))]))
        eng.assume(z3.Implies(r > 0, w == iota(0)))
        state["mat"] = (iota, kappa)
        return state["mat"]

    def get(jx):
        iota, _ = materialize()
        return xs.get(iota(zidx(jx)))

    if eng.path.notes.get("card_lemmas"):
        finfos = eng.path.notes.setdefault("filters", [])
        for other in finfos:
            card_lemmas(eng, info, other)
        finfos.append(info)
    out = SList(r, get, name, tainted=xs.tainted, meta=(info, materialize, xs))
    out_meta = eng.path.notes.setdefault("filter_meta", {})
    out_meta[id(out)] = (info, materialize, xs)
    eng.path.notes.setdefault("keepalive", []).append(out)
    return out


def card_lemmas(eng, a, b):
    """Cardinality lemmas between two order-preserving selections of equally long lists.

    equal predicates pointwise  => equal counts ; implication => <= ; disjoint => sum <= len ;
    cover (every index satisfies one of them) => sum >= len.  Theorems of finite sets; z3 cannot
    derive them (they need induction), so they are library lemmas (trusted base, cross-checked).
    """
    i = bvar(eng, "ci")
    rng = z3.And(0 <= i, i < a.base_len)
    same = a.base_len == b.base_len
    pa, pb = a.pred(i), b.pred(i)
    eng.assume(z3.Implies(z3.And(same, z3.ForAll([i], z3.Implies(rng, pa == pb))), a.rlen == b.rlen))
    eng.assume(z3.Implies(z3.And(same, z3.ForAll([i], z3.Implies(rng, z3.Implies(pa, pb)))),
                          a.rlen <= b.rlen))
    eng.assume(z3.Implies(z3.And(same, z3.ForAll([i], z3.Implies(rng, z3.Implies(pb, pa)))),
                          b.rlen <= a.rlen))
    eng.assume(z3.Implies(z3.And(same, z3.ForAll([i], z3.Implies(rng, z3.Not(z3.And(pa, pb))))),
                          a.rlen + b.rlen <= a.base_len))
    eng.assume(z3.Implies(z3.And(same, z3.ForAll([i], z3.Implies(rng, z3.Or(pa, pb)))),
                          a.rlen + b.rlen >= a.base_len))


def spec_count(eng, xs, pred_fn, name="cnt"):
    """Spec-level count of elements satisfying pred_fn: the length of the canonical selection."""
    return slist_filter(eng, xs, pred_fn, name).length


def slist_map(eng, xs, fn, name="map"):
    def get(jx):
        eng.pure += 1
        try:
            return fn(xs.get(zidx(jx)))
        finally:
            eng.pure -= 1
    return named(eng, SList(xs.length, get, name, tainted=xs.tainted), name)


def slist_comprehension(eng, n, gen, first, env):
    """[elt for target in xs if cond...] over a symbolic list (or enumerate of one)."""
    enum = False
    xs = first
    if isinstance(first, tuple):
        enum = True
        xs = first[1]
    base = xs
    if enum:
        base = SList(xs.length, lambda i: (SInt(zidx(i)), xs.get(zidx(i))), "enum", xs.tainted)

    def bind(x):
        ce = env.child()
        eng.assign(gen.target, x, ce)
        return ce

    cur = base
    if gen.ifs:
        def pred(x):
            ce = bind(x)
            zs = [eng.zbool_of(eng.eval(c, ce)) for c in gen.ifs]
            return SBool(z3.And(zs)) if len(zs) > 1 else SBool(zs[0])
        cur = slist_filter(eng, base, pred, "comp")
    is_identity = isinstance(n.elt, ast.Name) and isinstance(gen.target, ast.Name) \
        and n.elt.id == gen.target.id
    if is_identity:
        return cur
    return slist_map(eng, cur, lambda x: eng.eval(n.elt, bind(x)), "comp")


def slist_subscript(eng, xs, k):
    if isinstance(k, slice) or (isinstance(k, tuple) and k and k[0] == "slice"):
        if isinstance(k, slice):
            lo, hi, st = k.start, k.stop, k.step
        else:
            _, lo, hi, st = k
        if st is not None:
            raise Unsupported("slice step on symbolic list")
        n = xs.length
        if lo is None and hi is None:
            return SList(n, xs.get, xs.name, xs.tainted)
        if lo is None:
            a = zidx(hi)
            h = z3.If(a >= 0, z3.If(a < n, a, n), z3.If(n + a > 0, n + a, 0))
            return SList(h, xs.get, xs.name + "[:a]", xs.tainted)
        if hi is None:
            a = zidx(lo)
            st_ = z3.If(a >= 0, z3.If(a < n, a, n), z3.If(n + a > 0, n + a, 0))
            return SList(n - st_, lambda j: xs.get(zidx(j) + st_), xs.name + "[a:]", xs.tainted)
        a, b = zidx(lo), zidx(hi)
        st_ = z3.If(a >= 0, z3.If(a < n, a, n), z3.If(n + a > 0, n + a, 0))
        en_ = z3.If(b >= 0, z3.If(b < n, b, n), z3.If(n + b > 0, n + b, 0))
        ln = z3.If(en_ > st_, en_ - st_, 0)
        return SList(ln, lambda j: xs.get(zidx(j) + st_), xs.name + "[a:b]", xs.tainted)
    i = zidx(k)
    n = xs.length
    ok = z3.And(-n <= i, i < n)
    if not eng.branch(ok):
        raise _E().Raised(IndexError, ("list index out of range",))
    return xs.get(z3.If(i >= 0, i, n + i))


def slist_store(eng, xs, k, v):
    i = zidx(k)
    n = xs.length
    if not eng.branch(z3.And(-n <= i, i < n)):
        raise _E().Raised(IndexError, ("list assignment index out of range",))
    pos = z3.simplify(z3.If(i >= 0, i, n + i))
    old = xs.get
    xs.get = lambda j, old=old, pos=pos, v=v: merge(eng, zidx(j) == pos, v, old(zidx(j)))
    eng.path.trace.append(("slist_store", id(xs), pos, v))


def slist_delete(eng, xs, k):
    i = zidx(k)
    n = xs.length
    if not eng.branch(z3.And(-n <= i, i < n)):
        raise _E().Raised(IndexError, ("list assignment index out of range",))
    pos = z3.simplify(z3.If(i >= 0, i, n + i))
    old = xs.get
    # elements are a function of the index only, so an if-then-else *index* is exact
    shifted = SList(n - 1, lambda j, old=old, pos=pos: old(z3.If(zidx(j) < pos, zidx(j), zidx(j) + 1)),
                    xs.name, xs.tainted)
    nm = named(eng, shifted, "del")
    xs.get = nm.get
    xs.length = n - 1


def slist_method(eng, xs, name, args, kwargs):
    if name == "append":
        (v,) = args
        n = xs.length
        old = xs.get
        xs.get = lambda j, old=old, n=n, v=v: merge(eng, zidx(j) == n, v, old(zidx(j)))
        xs.length = n + 1
        return None
    if name == "count":
        raise Unsupported("count on symbolic list")
    if name == "copy":
        return SList(xs.length, xs.get, xs.name, xs.tainted)
    raise Unsupported("method %s on symbolic list" % name)


def concrete_list_sym_index(eng, c, k):
    n = len(c)
    i = k.z
    if not eng.branch(z3.And(-n <= i, i < n)):
        raise _E().Raised(IndexError, ("list index out of range",))
    idx = eng.choose(n, lambda q: z3.Or(i == q, i == q - n))
    return c[idx]


def concrete_list_sym_store(eng, c, k, v):
    n = len(c)
    i = k.z
    if not eng.branch(z3.And(-n <= i, i < n)):
        raise _E().Raised(IndexError, ("list assignment index out of range",))
    idx = eng.choose(n, lambda q: z3.Or(i == q, i == q - n))
    c[idx] = v


def symbolic_slice(eng, c, k):
    """Slice of a *concrete* list with symbolic bounds: decide the effective bounds by forking."""
    _, lo, hi, stp = k
    if stp is not None:
        raise Unsupported("slice step with symbolic bounds")
    n = len(c)

    def clamp(a):
        if a is None:
            return None
        a = zidx(a)
        return z3.If(a >= 0, z3.If(a < n, a, n), z3.If(n + a > 0, n + a, 0))

    def decide(z, default):
        if z is None:
            return default
        q = eng.choose(n + 1, lambda q: z == q)
        return q
    lo_c = decide(clamp(lo), 0)
    hi_c = decide(clamp(hi), n)
    return c[lo_c:hi_c]


def replicate(eng, lst, n):
    """[v] * n with symbolic n: every element is the same object v (Appendix A `replicate`)."""
    if len(lst) != 1:
        raise Unsupported("replication of a multi-element list by a symbolic count")
    v = lst[0]
    ln = z3.If(n.z > 0, n.z, 0)
    return SList(ln, lambda j: v, "rep")


def concat(eng, a, b):
    a, b = as_slist(eng, a), as_slist(eng, b)
    na = a.length
    return SList(na + b.length, lambda j: merge(eng, zidx(j) < na, a.get(zidx(j)), b.get(zidx(j) - na)),
                 "cat", a.tainted or b.tainted)


class TaintedList(list):
    """A concrete list whose order came from iterating a set (hash-seed dependent)."""


def make_set(eng, items):
    out = []
    for x in items:
        if isinstance(x, Sym) or S.deep_has_sym(x):
            # distinctness of symbolic elements is decided by forking
            dup = False
            for y in out:
                if eng.truth(eng.compare(ast.Eq(), x, y)):
                    dup = True
                    break
            if not dup:
                out.append(x)
        else:
            if not any((not isinstance(y, Sym)) and y == x for y in out if not S.deep_has_sym(y)):
                out.append(x)
    return SymSet(out)


class SymSet(object):
    """Finite set with concretely known cardinality; iteration order is *arbitrary* (tainted)."""

    def __init__(self, items):
        self.items = list(items)

    def __len__(self):
        return len(self.items)


# --------------------------------------------------------------------------------------------
# builtin models
# --------------------------------------------------------------------------------------------
def m_len(eng, args, kwargs, anysym):
    (x,) = args
    if isinstance(x, SList):
        return SInt(x.length)
    if isinstance(x, SymSet):
        return len(x.items)
    if isinstance(x, Sym):
        raise Unsupported("len of %r" % (x,))
    E = _E()
    if isinstance(x, E.AbstractObj):
        fn = x._attrs.get("__len__")
        if fn is None:
            raise Unsupported("len of %r" % (x,))
        return eng.call(fn, [], {})
    if E.is_repo_class(type(x)):
        m = E.static_lookup(type(x), "__len__")
        if m is not E._MISSING:
            return eng.call(E.BoundMethod(m, x), [], {})
    return len(x)


def m_bool(eng, args, kwargs, anysym):
    if not args:
        return False
    (x,) = args
    if isinstance(x, Sym):
        return eng.wrap_bool(eng.zbool(x))
    try:
        return bool(x)
    except NativeOnSym:
        raise Unsupported("bool of container with symbolic parts")


_TYPE_OF_SYM = {SBool: bool, SInt: int}


def m_isinstance(eng, args, kwargs, anysym):
    x, t = args
    ts = t if isinstance(t, tuple) else (t,)
    E = _E()
    if isinstance(x, SBool):
        return any(issubclass(bool, k) for k in ts)
    if isinstance(x, SInt):
        return any(issubclass(int, k) for k in ts)
    if isinstance(x, SList):
        return any(issubclass(list, k) for k in ts)
    if isinstance(x, SConst):
        if x.dom is None:
            f = z3.Function("isinst_%s" % "_".join(k.__name__ for k in ts), z3.IntSort(), z3.BoolSort())
            return eng.wrap_bool(f(x.z))
        return eng.wrap_bool(eng._or([x.z == INTERN.id_of(c) for c in x.dom if isinstance(c, ts)]))
    if isinstance(x, SVal):
        f = z3.Function("isinst_%s" % "_".join(k.__name__ for k in ts), S.Val, z3.BoolSort())
        return eng.wrap_bool(f(x.z))
    if isinstance(x, E.SymExc):
        return any(issubclass(x.cls, k) for k in ts)
    if isinstance(x, E.AbstractObj):
        k = x._attrs.get("__class__")
        if k is None:
            raise Unsupported("isinstance on %r" % (x,))
        return any(issubclass(k, q) for q in ts)
    return isinstance(x, ts)


def m_type(eng, args, kwargs, anysym):
    if len(args) != 1:
        return NOT_HANDLED
    (x,) = args
    E = _E()
    if isinstance(x, E.AbstractObj) and "__class__" in x._attrs:
        return x._attrs["__class__"]
    if isinstance(x, E.SymExc):
        return x.cls
    if isinstance(x, Sym):
        if isinstance(x, SBool):
            return bool
        if isinstance(x, SInt):
            return int
        if isinstance(x, SList):
            return list
        raise Unsupported("type() of %r" % (x,))
    return type(x)


def m_getattr(eng, args, kwargs, anysym):
    E = _E()
    obj, name = args[0], args[1]
    if isinstance(name, Sym):
        name = eng.concretize(name)
    try:
        return eng.get_attr(obj, name)
    except E.Raised as r:
        if issubclass(r.cls, AttributeError) and len(args) > 2:
            return args[2]
        raise


def m_hasattr(eng, args, kwargs, anysym):
    E = _E()
    obj, name = args
    try:
        eng.get_attr(obj, name)
        return True
    except E.Raised as r:
        if issubclass(r.cls, AttributeError):
            return False
        raise


def m_setattr(eng, args, kwargs, anysym):
    obj, name, v = args
    eng.set_attr(obj, name, v)
    return None


def m_list(eng, args, kwargs, anysym):
    if not args:
        return []
    (x,) = args
    if isinstance(x, SList):
        return SList(x.length, x.get, x.name, x.tainted, x.meta)
    if isinstance(x, Unzipped):
        return x.to_list(eng)
    if isinstance(x, SymSet):
        return eng.arbitrary_order(x.items)
    if isinstance(x, Sym):
        raise Unsupported("list() of %r" % (x,))
    if isinstance(x, tuple) and x and x[0] == "enumerate":
        raise Unsupported("list(enumerate(symbolic list))")
    if isinstance(x, list) and type(x) is TaintedList:
        return TaintedList(x)
    return list(eng.iterate(x))


def m_tuple(eng, args, kwargs, anysym):
    if not args:
        return ()
    (x,) = args
    if isinstance(x, Sym):
        raise Unsupported("tuple() of symbolic value")
    return tuple(eng.iterate(x))


def m_set(eng, args, kwargs, anysym):
    if not args:
        return set()
    (x,) = args
    if isinstance(x, Sym):
        raise Unsupported("set() of symbolic list")
    items = eng.iterate(x) if not isinstance(x, SymSet) else x.items
    if S.deep_has_sym(items):
        return make_set(eng, items)
    return set(items)


def m_dict(eng, args, kwargs, anysym):
    if anysym:
        raise Unsupported("dict() of symbolic value")
    if args and isinstance(args[0], dict):
        d = dict(args[0])
        d.update(kwargs)
        return d
    return NOT_HANDLED


def m_str(eng, args, kwargs, anysym):
    if not args:
        return ""
    (x,) = args
    if isinstance(x, SConst):
        if x.dom is not None:
            return str(eng.concretize(x))
        raise Unsupported("str() of open-domain constant")
    if isinstance(x, SInt):
        return StrOf(x)
    E = _E()
    if isinstance(x, E.SymExc):
        return "<%s>" % x.cls.__name__
    if isinstance(x, Sym):
        raise Unsupported("str() of %r" % (x,))
    if isinstance(x, BaseException):
        return str(x)
    if E.is_repo_class(type(x)):
        m = E.static_lookup(type(x), "__str__")
        if m is not E._MISSING and isinstance(m, type(m_str)):
            return eng.call(E.BoundMethod(m, x), [], {})
    try:
        return str(x)
    except NativeOnSym:
        raise Unsupported("str() of container with symbolic parts")


class StrOf(object):
    """str(i) of a symbolic int (injective; only compared / formatted into keys)."""

    def __init__(self, i):
        self.i = i


def m_filter(eng, args, kwargs, anysym):
    fn, xs = args
    if isinstance(xs, SList):
        if fn is None:
            return slist_filter(eng, xs, lambda x: x, "filter")
        return slist_filter(eng, xs, lambda x: eng.call(fn, [x], {}), "filter")
    if isinstance(xs, Sym):
        raise Unsupported("filter over %r" % (xs,))
    out = []
    for x in eng.iterate(xs):
        v = x if fn is None else eng.call(fn, [x], {})
        if eng.truth(v):
            out.append(x)
    return out


def m_map(eng, args, kwargs, anysym):
    fn, xs = args[0], args[1]
    if len(args) != 2:
        raise Unsupported("map with several iterables")
    if isinstance(xs, SList):
        return slist_map(eng, xs, lambda x: eng.call(fn, [x], {}))
    return [eng.call(fn, [x], {}) for x in eng.iterate(xs)]


class Unzipped(object):
    """zip(*rows) where rows is a symbolic list of equally shaped tuples."""

    def __init__(self, rows):
        self.rows = rows

    def to_list(self, eng):
        rows = self.rows
        if not eng.branch(rows.length > 0):
            return []
        probe = rows.get(z3.IntVal(0))
        if not isinstance(probe, tuple):
            raise Unsupported("zip(*xs) on non-tuple elements")
        width = len(probe)
        return [SList(rows.length, (lambda j, c=c: rows.get(zidx(j))[c]), "unzip%d" % c, rows.tainted)
                for c in range(width)]


def m_zip(eng, args, kwargs, anysym):
    if len(args) == 1 and isinstance(args[0], tuple) and len(args[0]) == 2 and args[0][0] == "*":
        rows = args[0][1]
        if not isinstance(rows, SList):
            raise Unsupported("zip(*%r)" % (rows,))
        return Unzipped(rows)
    if any(isinstance(a, SList) for a in args):
        ls = [as_slist(eng, a) for a in args]
        n = ls[0].length
        for l in ls[1:]:
            n = z3.If(l.length < n, l.length, n)
        return SList(z3.simplify(n), lambda j: tuple(l.get(zidx(j)) for l in ls), "zip",
                     any(l.tainted for l in ls))
    if anysym:
        raise Unsupported("zip over symbolic values")
    return list(zip(*[eng.iterate(a) for a in args]))


def m_enumerate(eng, args, kwargs, anysym):
    xs = args[0]
    start = args[1] if len(args) > 1 else kwargs.get("start", 0)
    if isinstance(xs, SList):
        if start != 0:
            raise Unsupported("enumerate(symbolic list, start)")
        return ("enumerate", xs)
    if isinstance(start, Sym):
        raise Unsupported("enumerate with symbolic start")
    return list(enumerate(eng.iterate(xs), start))


def _quant_bool(eng, xs, positive):
    """all(xs) if positive else any(xs) for a symbolic list."""
    b = z3.Bool(S.fresh_name("all" if positive else "any"))
    i = bvar(eng, "qi")
    w = z3.Int(S.fresh_name("qw"))
    rng = z3.And(0 <= i, i < xs.length)
    eng.pure += 1
    try:
        ti = eng.zbool_of(xs.get(i))
        tw = eng.zbool_of(xs.get(w))
    finally:
        eng.pure -= 1
    if positive:
        eng.assume(z3.Implies(b, z3.ForAll([i], z3.Implies(rng, ti))))
        eng.assume(z3.Implies(z3.Not(b), z3.And(0 <= w, w < xs.length, z3.Not(tw))))
    else:
        eng.assume(z3.Implies(z3.Not(b), z3.ForAll([i], z3.Implies(rng, z3.Not(ti)))))
        eng.assume(z3.Implies(b, z3.And(0 <= w, w < xs.length, tw)))
    return SBool(b)


def m_all(eng, args, kwargs, anysym):
    (xs,) = args
    if isinstance(xs, SList):
        return _quant_bool(eng, xs, True)
    items = eng.iterate(xs)
    if not any(isinstance(x, Sym) for x in items):
        try:
            return all(items)
        except NativeOnSym:
            raise Unsupported("all() over containers with symbolic parts")
    return eng.wrap_bool(z3.And([eng.zbool_of(eng.zbool(x)) for x in items]))


def m_any(eng, args, kwargs, anysym):
    (xs,) = args
    if isinstance(xs, SList):
        return _quant_bool(eng, xs, False)
    items = eng.iterate(xs)
    if not any(isinstance(x, Sym) for x in items):
        try:
            return any(items)
        except NativeOnSym:
            raise Unsupported("any() over containers with symbolic parts")
    return eng.wrap_bool(z3.Or([eng.zbool_of(eng.zbool(x)) for x in items]))


def m_sorted(eng, args, kwargs, anysym):
    xs = args[0]
    key = kwargs.get("key")
    if isinstance(xs, Sym):
        raise Unsupported("sorted() of symbolic list (needs a contract)")
    if isinstance(xs, (set, frozenset, SymSet)):
        # sorting a set: if the keys are concrete and pairwise distinct the result does not depend on
        # the iteration order, so no order needs to be explored
        raw = list(xs.items) if isinstance(xs, SymSet) else list(xs)
        ks = raw if key is None else [eng.call(key, [x], {}) for x in raw]
        if not S.deep_has_sym(ks):
            try:
                if len({repr(k_) for k_ in ks}) == len(ks) and len(set(map(type, ks))) <= 1:
                    order = sorted(range(len(raw)), key=lambda q: ks[q], reverse=kwargs.get("reverse", False))
                    return [raw[q] for q in order]
            except TypeError as e:
                raise _E().Raised(TypeError, e.args)
    items = eng.iterate(xs)
    if key is None:
        keys = items
    else:
        keys = [eng.call(key, [x], {}) for x in items]
    if S.deep_has_sym(keys):
        # ground list, symbolic keys: stable insertion sort deciding each comparison by forking
        if kwargs.get("reverse"):
            raise Unsupported("sorted(reverse=True) with symbolic keys")
        order = []
        for q in range(len(items)):
            pos = len(order)
            while pos > 0 and eng.truth(eng.wrap_bool(eng.zbool_of(eng.key_lt(keys[q], keys[order[pos - 1]])))):
                pos -= 1
            order.insert(pos, q)
        return [items[q] for q in order]
    try:
        order = sorted(range(len(items)), key=lambda q: keys[q], reverse=kwargs.get("reverse", False))
    except TypeError as e:
        raise _E().Raised(TypeError, e.args)
    if isinstance(xs, (TaintedList, SymSet)):
        # sorting cleanses order-taint only if the key is injective on the elements
        if len(set(map(repr, keys))) != len(keys):
            return TaintedList([items[q] for q in order])
    return [items[q] for q in order]


def m_issubclass(eng, args, kwargs, anysym):
    return issubclass(*args)


def m_int(eng, args, kwargs, anysym):
    if args and isinstance(args[0], SInt):
        return args[0]
    if args and isinstance(args[0], SBool):
        return SInt(z3.If(args[0].z, 1, 0))
    return NOT_HANDLED


def m_min(eng, args, kwargs, anysym):
    if anysym and len(args) == 2:
        a, b = eng.zint(args[0]), eng.zint(args[1])
        return SInt(z3.If(a <= b, a, b))
    return NOT_HANDLED


def m_max(eng, args, kwargs, anysym):
    if anysym and len(args) == 2:
        a, b = eng.zint(args[0]), eng.zint(args[1])
        return SInt(z3.If(a >= b, a, b))
    return NOT_HANDLED


def m_reversed(eng, args, kwargs, anysym):
    (xs,) = args
    if isinstance(xs, Sym):
        raise Unsupported("reversed() of symbolic list")
    return list(reversed(eng.iterate(xs)))


BUILTIN_MODELS = {
    len: m_len, bool: m_bool, isinstance: m_isinstance, type: m_type, getattr: m_getattr,
    hasattr: m_hasattr, setattr: m_setattr, list: m_list, tuple: m_tuple, set: m_set, dict: m_dict,
    str: m_str, filter: m_filter, map: m_map, zip: m_zip, enumerate: m_enumerate, all: m_all,
    any: m_any, sorted: m_sorted, issubclass: m_issubclass, int: m_int, min: m_min, max: m_max,
    reversed: m_reversed,
}


# --------------------------------------------------------------------------------------------
# methods of concrete containers whose contents may be symbolic
# --------------------------------------------------------------------------------------------
def container_method(eng, owner, name, args, kwargs):
    E = _E()
    if isinstance(owner, dict):
        if name in ("get", "pop", "setdefault", "__contains__") and args:
            k = args[0]
            if isinstance(k, SConst):
                k = eng.concretize(k)
                args = [k] + list(args[1:])
            elif isinstance(k, Sym):
                raise Unsupported("dict.%s with symbolic key %r" % (name, k))
        if name == "get":
            try:
                val = owner.get(*args)
            except TypeError as e:
                raise E.Raised(TypeError, e.args)
            if isinstance(val, OptField) and args[0] in owner and owner[args[0]] is val:
                default = args[1] if len(args) > 1 else None
                pz = z3.BoolVal(val.present) if isinstance(val.present, bool) else val.present
                try:
                    return merge(eng, pz, val.value, default)
                except Unsupported:
                    if eng.branch(pz):
                        owner[args[0]] = val.value
                        return val.value
                    del owner[args[0]]
                    return default
            return val
        if name == "pop":
            eng.path.trace.append(("dict_pop", id(owner), args[0]))
            cur = owner.get(args[0], None) if not isinstance(args[0], Sym) else None
            if isinstance(cur, OptField):
                pz = z3.BoolVal(cur.present) if isinstance(cur.present, bool) else cur.present
                present = eng.branch(pz)
                del owner[args[0]]
                if present:
                    return cur.value
                if len(args) > 1:
                    return args[1]
                raise E.Raised(KeyError, (args[0],))
            try:
                return owner.pop(*args)
            except KeyError as e:
                raise E.Raised(KeyError, e.args)
        if name in ("items", "keys", "values", "copy") and any(isinstance(x, OptField) for x in owner.values()):
            eng.resolve_opt(owner)
        if name in ("items", "keys", "values", "setdefault", "copy", "clear"):
            return getattr(owner, name)(*args)
        if name == "update":
            for a in args:
                if isinstance(a, Sym):
                    raise Unsupported("dict.update with symbolic value")
            owner.update(*args, **kwargs)
            return None
        return NOT_HANDLED
    if isinstance(owner, list):
        if name == "append":
            owner.append(args[0])
            eng.path.trace.append(("list_append", id(owner), args[0]))
            return None
        if name == "extend":
            x = args[0]
            if isinstance(x, Sym):
                raise Unsupported("list.extend with symbolic list")
            owner.extend(eng.iterate(x))
            return None
        if name == "insert":
            if isinstance(args[0], Sym):
                raise Unsupported("list.insert at symbolic index")
            owner.insert(*args)
            return None
        if name in ("remove", "index", "count", "__contains__"):
            x = args[0]
            if name == "count":
                if not S.deep_has_sym(owner) and not S.deep_has_sym(x):
                    return owner.count(x)
                zs = [eng.zbool_of(eng.sym_eq(e, x)) for e in owner]
                return SInt(z3.Sum([z3.If(z, 1, 0) for z in zs])) if zs else 0
            for idx, e in enumerate(owner):
                same = (e is x) or eng.truth(eng.compare(ast.Eq(), e, x))
                if same:
                    if name == "remove":
                        del owner[idx]
                        eng.path.trace.append(("list_remove", id(owner), idx))
                        return None
                    if name == "index":
                        return idx
                    return True
            if name == "__contains__":
                return False
            raise E.Raised(ValueError, ("list.%s(x): x not in list" % name,))
        if name in ("copy", "pop", "sort", "reverse", "clear"):
            if name == "sort":
                raise Unsupported("list.sort")
            try:
                return getattr(owner, name)(*args)
            except IndexError as e:
                raise E.Raised(IndexError, e.args)
        return NOT_HANDLED
    if isinstance(owner, str):
        cargs = []
        for a in args:
            if isinstance(a, SConst):
                a = eng.concretize(a)
            elif isinstance(a, Sym):
                raise Unsupported("str.%s with symbolic argument" % name)
            cargs.append(a)
        try:
            return getattr(owner, name)(*cargs, **kwargs)
        except Exception as e:
            raise E.Raised(type(e), e.args)
    if isinstance(owner, SymSet):
        raise Unsupported("set method %s on symbolic set" % name)
    return NOT_HANDLED
