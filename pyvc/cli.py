"""./check <Cnn> [--tier quick|thorough]   — decide one property on /repo's working tree.

Exit codes: 0 all obligations discharged (known findings printed); 1 violation (VIOLATION lines);
2 undecided (unsupported construct / solver unknown); 3 checker fault.
"""
import argparse
import importlib
import json
import os
import sys
import time

from . import framework as FW
from .framework import EXIT_OK, EXIT_VIOLATION, EXIT_UNDECIDED, EXIT_FAULT, VERIF

OUT = os.environ.get("VERIF_OUT", VERIF)


def all_units():
    reg = importlib.import_module("contracts.registry")
    out = []
    for mod, cls in reg.UNITS:
        u = getattr(importlib.import_module(mod), cls)()
        out.append((mod, cls, u))
    return out


def units_for(prop):
    sel = []
    for mod, cls, u in all_units():
        if any(prop in o["props"] for o in u.obligations.values()):
            sel.append((mod, cls, u))
    return sel


def write_replay(prop, rec, unit, extra):
    d = os.path.join(OUT, "replays", prop)
    os.makedirs(d, exist_ok=True)
    tag = "%s__%s" % (rec["name"], abs(hash(json.dumps(rec.get("model"), sort_keys=True, default=str))) % 100000)
    path = os.path.join(d, tag + ".json")
    smt2_path = None
    if rec.get("smt2"):
        sd = os.path.join(OUT, "smt2")
        os.makedirs(sd, exist_ok=True)
        smt2_path = os.path.join(sd, tag + ".smt2")
        with open(smt2_path, "w") as f:
            f.write(rec["smt2"])
    body = {
        "property": prop, "obligation": rec["name"], "unit": unit.name,
        "functions": unit.functions,
        "required": unit.obligations[rec["name"]]["text"],
        "solver": {"backend": "z3-5.1", "verdict": "sat" if rec["status"] == "failed" else rec["status"],
                   "vc": smt2_path, "time_s": rec.get("time_s")},
        "inputs": rec.get("model"),
        "case": rec.get("sample"),
        "rerun": "./check replay %s" % os.path.relpath(path, OUT),
    }
    body.update(extra)
    with open(path, "w") as f:
        json.dump(body, f, indent=1, default=str)
    return path


def native_replay(unit, rec):
    """Replay a counter-model on the real code natively and evaluate the clause on what happened."""
    model = rec.get("model")
    if model is None or unit.native is FW.Unit.native:
        return {"native_replay": "not-available"}
    try:
        obs = unit.native(model)
    except Exception as e:
        return {"native_replay": "harness-error", "error": repr(e)}
    if obs is None:
        return {"native_replay": "not-available"}
    v = dict(model)
    v.update(obs)
    v["raised"] = bool(obs.get("raised"))
    clause = unit.clause(rec["name"])
    try:
        ok = bool(clause(v)) if clause else None
    except Exception as e:
        return {"native_replay": "clause-error", "error": repr(e), "observed": FW._jsonable(obs)}
    return {"native_replay": "violates" if ok is False else ("satisfies" if ok else "not-available"),
            "observed": FW._jsonable(obs)}


def check_property(prop, tier, seed, jobs=None, quiet=False):
    t0 = time.time()
    sel = units_for(prop)
    evidence_path = os.path.join(OUT, "evidence", "%s.json" % prop)
    os.makedirs(os.path.dirname(evidence_path), exist_ok=True)
    if not sel:
        print("no unit serves %s (not claimed)" % prop)
        return EXIT_FAULT
    outs, cached_units = FW.run_units([(m, c) for m, c, _ in sel], tier, seed, jobs)
    unit_by_name = {u.name: u for _, _, u in sel}
    unit_by_cls = {c: u for _, c, u in sel}

    faults, undecided = [], []
    recs = []
    paths = solver_calls = 0
    solver_time = 0.0
    cross = canaries = canaries_ref = 0
    covers = {}
    interpreted = set()
    bounded = []
    cvc5_tally = {}
    for o in outs:
        if o["error"]:
            faults.append("worker crash in %s split=%s:\n%s" % (o["unit"], o["split"], o["error"]))
        if o["unsupported"]:
            undecided.append(o["unsupported"])
        for m in o["cross_mismatch"]:
            faults.append("engine/CPython mismatch in %s: %s" % (o["unit"], json.dumps(m, default=str)[:600]))
        paths += o["paths"]
        solver_calls += o["solver_calls"]
        solver_time += o["solver_time"]
        cross += o["crosschecks"]
        canaries += o["canaries"]
        canaries_ref += o["canaries_refuted"]
        for k, n in o["covers"].items():
            covers[k] = covers.get(k, 0) + n
        interpreted.update(o["interpreted"])
        bounded.extend(o.get("bounded", []))
        for nm, verdict in o.get("cvc5", []):
            cvc5_tally[verdict] = cvc5_tally.get(verdict, 0) + 1
            if verdict == "sat":
                faults.append("solver disagreement on %s: z3 unsat, cvc5 sat" % nm)
        u = unit_by_cls[o["unit"]]
        for r in o["records"]:
            if prop in u.obligations[r["name"]]["props"]:
                r["_unit"] = u
                recs.append(r)

    instances = [r for r in recs if r["status"] in ("discharged", "failed", "unknown")]
    discharged = [r for r in instances if r["status"] == "discharged"]
    failed = [r for r in instances if r["status"] == "failed"]
    unknown = [r for r in instances if r["status"] == "unknown"]
    known = [r for r in recs if r["status"] == "known"]
    declared = sorted({n for _, _, u in sel for n, o in u.obligations.items() if prop in o["props"]})
    seen = sorted({r["name"] for r in instances})
    missing = [n for n in declared if n not in seen]

    cnt = lambda rs: sum(r.get("count", 1) for r in rs)
    proof_inst = [r for r in instances if not r.get("bounded")]
    proof_dis = [r for r in discharged if not r.get("bounded")]
    bnd_inst = [r for r in instances if r.get("bounded")]
    bnd_dis = [r for r in discharged if r.get("bounded")]
    if canaries and canaries_ref < canaries:
        faults.append("vacuity: %d of %d canaries were not refuted (contradictory requires)" %
                      (canaries - canaries_ref, canaries))
    if not instances:
        faults.append("zero obligations generated for %s" % prop)
    if missing and not undecided and not faults:
        faults.append("declared obligations never instantiated: %s" % missing)

    # thorough: independent re-check of undischarged VCs in cvc5 (disagreement is a fault)
    by_backend = {"z3-5.1": cnt(proof_dis), "z3-5.1 (bounded stand-ins, not counted as proved)": cnt(bnd_dis)}
    if tier == "thorough":
        n_cvc5 = 0
        for r in failed + unknown:
            if r.get("smt2"):
                v = FW.cvc5_recheck(r["smt2"])
                r["cvc5"] = v
                n_cvc5 += 1
                if r["status"] == "failed" and v == "unsat":
                    faults.append("solver disagreement on %s: z3 sat, cvc5 unsat" % r["name"])
        by_backend["cvc5-1.0.3(recheck of non-discharged)"] = n_cvc5
        by_backend["cvc5-1.0.3(independent recheck of sampled discharged VCs: verdict tally)"] = cvc5_tally

    violations = []
    seen_keys = set()
    for r in failed:
        u = r["_unit"]
        extra = native_replay(u, r)
        path = write_replay(prop, r, u, extra)
        key = (r["name"], json.dumps(r.get("model"), sort_keys=True, default=str))
        if key in seen_keys:
            continue
        seen_keys.add(key)
        suffix = "" if extra.get("native_replay") == "violates" else " no-failing-input-found"
        violations.append((r["name"], path, suffix, r))

    findings = {f.id: f for f in FW.load_findings()}
    known_ids = []
    for r in known:
        if r["finding"] not in known_ids:
            known_ids.append(r["finding"])

    # ---------------------------------------------------------------- evidence
    funcs = sorted({f for _, _, u in sel for f in u.functions})
    assumptions = []
    trusted = []
    for _, _, u in sel:
        for a in u.assumptions:
            if a not in assumptions:
                assumptions.append(a)
        for a in u.trusted:
            if a not in trusted:
                trusted.append(a)
    assumptions.append("termination is not proved")
    assumptions.append("Python ints are mathematical integers in the encoding (exact for Python)")
    samples = []
    for n in seen[:40]:
        ex = next(r for r in instances if r["name"] == n)
        u = ex["_unit"]
        samples.append({"obligation": n, "text": u.obligations[n]["text"], "unit": u.name,
                        "kind": "bounded" if all(r.get("bounded") for r in instances if r["name"] == n) else "proof",
                        "instances": sum(r.get("count", 1) for r in instances if r["name"] == n),
                        "example_case": ex.get("sample")})
    ev = {
        "property_id": prop, "tier": tier, "seed": seed, "level": "proof" if proof_inst else "other",
        "coverage": {
            "obligations": cnt(proof_inst), "discharged": cnt(proof_dis),
            "bounded_obligations": cnt(bnd_inst), "bounded_discharged": cnt(bnd_dis),
            "named_proof_obligations": sorted({r["name"] for r in proof_inst}),
            "named_bounded_obligations": sorted({r["name"] for r in bnd_inst}),
            "named_obligations": len(seen),
            "checker_cmd": "./check %s --tier %s" % (prop, tier),
            "trusted_base": trusted + ["CPython 3.12 (module import of /repo constants and tables)"],
            "functions_under_contract": [{"function": f, "source_sha256_16": FW.source_hash(f)} for f in funcs],
            "functions_interpreted_from_source": sorted(interpreted),
            "by_backend": by_backend, "solver_time_s": round(solver_time, 2), "solver_calls": solver_calls,
            "paths": paths, "cover_counts": covers, "canaries": canaries, "canaries_refuted": canaries_ref,
            "cpython_crosschecks": cross, "bounded": bounded,
            "units": [u.name for _, _, u in sel],
            "units_reused_from_this_trees_cache": cached_units,
            "known_findings_witnessed": known_ids,
            "undecided": undecided[:20], "unknown_obligations": sorted({r["name"] for r in unknown}),
            "samples": samples,
            "explanation": (
                "Contract-based deductive verification of the real functions: `obligations`/`discharged` count the "
                "verification conditions generated from /repo's source for ALL inputs of the stated sorts (unbounded lists, "
                "symbolic facts, complete case splits) and discharged by z3; `bounded_obligations` are bounded stand-ins "
                "(finite shape bound stated in `bounded` and in the unit assumptions, every leaf value still symbolic, or "
                "native differential runs against a spec function) and are NOT counted as proved."
                + ("" if proof_inst else " This property currently has bounded stand-ins only: nothing is claimed as proved.")),
        },
        "assumptions": assumptions,
        "wall_s": round(time.time() - t0, 2),
        "violations": len(violations),
    }
    with open(evidence_path, "w") as f:
        json.dump(ev, f, indent=1, default=str)

    # ---------------------------------------------------------------- verdict
    for fid in known_ids:
        f = findings.get(fid)
        print("KNOWN-FINDING: property=%s %s: %s" % (prop, fid, f.what if f else ""))
    if violations:
        for name, path, suffix, r in violations:
            print("VIOLATION property=%s replay=%s obligation=%s%s" % (prop, path, name, suffix))
        return EXIT_VIOLATION
    if faults:
        for x in faults:
            print("CHECKER-FAULT: %s" % x, file=sys.stderr)
        return EXIT_FAULT
    if undecided or unknown:
        for x in undecided[:10]:
            print("UNDECIDED: %s" % x, file=sys.stderr)
        for r in unknown[:10]:
            print("UNDECIDED: solver returned unknown for %s (%s)" % (r["name"], r.get("reason")), file=sys.stderr)
        return EXIT_UNDECIDED
    if not quiet:
        print("OK property=%s proof_obligations=%d discharged=%d bounded=%d/%d named=%d paths=%d wall=%.1fs" % (
            prop, cnt(proof_inst), cnt(proof_dis), cnt(bnd_dis), cnt(bnd_inst), len(seen), paths, time.time() - t0))
    return EXIT_OK


def cmd_replay(path):
    with open(path) as f:
        body = json.load(f)
    for mod, cls, u in all_units():
        if u.name == body["unit"]:
            rec = {"name": body["obligation"], "model": body["inputs"], "status": "failed"}
            out = native_replay(u, rec)
            print(json.dumps(out, indent=1, default=str))
            return 1 if out.get("native_replay") == "violates" else 0
    print("unit %s not found" % body["unit"])
    return 3


def main(argv=None):
    ap = argparse.ArgumentParser()
    ap.add_argument("what")
    ap.add_argument("arg", nargs="?")
    ap.add_argument("--tier", default=os.environ.get("VERIF_TIER", "quick"))
    ap.add_argument("--jobs", type=int, default=None)
    a = ap.parse_args(argv)
    seed = int(os.environ.get("VERIF_SEED", "0") or 0)
    if a.tier not in ("quick", "thorough"):
        a.tier = "quick"
    if a.what == "list":
        for mod, cls, u in all_units():
            print(u.name, sorted(u.obligations))
        return 0
    if a.what == "replay":
        return cmd_replay(a.arg)
    if a.what == "selftest":
        from . import selftest
        return selftest.main(a.tier, seed)
    return check_property(a.what, a.tier, seed, a.jobs)


if __name__ == "__main__":
    sys.exit(main())
