"""Combinators for writing contract clauses once and evaluating them both symbolically (engine)
and natively (counterexample replay, CPython cross-check).

A clause is an ordinary Python function over a dict of named values; it must only use these
combinators on values that may be symbolic.
"""
import z3

from .sym import SBool, SConst, SInt, SList, SVal, Sym, INTERN, Unsupported


def _z(v):
    if isinstance(v, z3.BoolRef):
        return v
    if isinstance(v, SBool):
        return v.z
    if isinstance(v, bool):
        return z3.BoolVal(v)
    if isinstance(v, SInt):
        return v.z != 0
    if isinstance(v, SConst):
        if v.dom is None:
            raise Unsupported("truthiness of open constant in spec")
        ts = [v.z == INTERN.id_of(c) for c in v.dom if c]
        return z3.Or(ts) if ts else z3.BoolVal(False)
    if isinstance(v, SList):
        return v.length > 0
    if isinstance(v, Sym):
        raise Unsupported("spec truthiness of %r" % (v,))
    return z3.BoolVal(bool(v))


def _sym(*vs):
    return any(isinstance(v, (Sym, z3.ExprRef)) for v in vs)


def AND(*vs):
    if not _sym(*vs):
        return all(bool(v) for v in vs)
    return z3.And([_z(v) for v in vs])


def OR(*vs):
    if not _sym(*vs):
        return any(bool(v) for v in vs)
    return z3.Or([_z(v) for v in vs])


def NOT(v):
    if not _sym(v):
        return not v
    return z3.Not(_z(v))


def IMPLIES(a, b):
    if not _sym(a, b):
        return (not a) or bool(b)
    return z3.Implies(_z(a), _z(b))


def IFF(a, b):
    if not _sym(a, b):
        return bool(a) == bool(b)
    return _z(a) == _z(b)


def EQ(a, b):
    if not _sym(a, b):
        return a == b
    if isinstance(b, (SConst, SInt, SBool)) and not isinstance(a, Sym):
        a, b = b, a
    if isinstance(a, SConst):
        if isinstance(b, SConst):
            return a.z == b.z
        return a.z == INTERN.id_of(b)
    if isinstance(a, SInt):
        return a.z == (b.z if isinstance(b, SInt) else b)
    if isinstance(a, SBool):
        return a.z == _z(b)
    if isinstance(a, SVal) and isinstance(b, SVal):
        return a.z == b.z
    if isinstance(a, z3.ExprRef):
        return a == (b.z if isinstance(b, Sym) else b)
    raise Unsupported("spec EQ on %r, %r" % (a, b))


def NE(a, b):
    return NOT(EQ(a, b))


def IN(a, options):
    if not _sym(a):
        return a in options
    return z3.Or([EQ(a, o) for o in options]) if options else z3.BoolVal(False)


def NOTIN(a, options):
    return NOT(IN(a, options))


def LE(a, b):
    if not _sym(a, b):
        return a <= b
    return _i(a) <= _i(b)


def LT(a, b):
    if not _sym(a, b):
        return a < b
    return _i(a) < _i(b)


def GE(a, b):
    return LE(b, a)


def GT(a, b):
    return LT(b, a)


def _i(v):
    if isinstance(v, SInt):
        return v.z
    if isinstance(v, z3.ArithRef):
        return v
    if isinstance(v, bool):
        return z3.IntVal(int(v))
    if isinstance(v, int):
        return z3.IntVal(v)
    raise Unsupported("spec integer view of %r" % (v,))


def ADD(a, b):
    if not _sym(a, b):
        return a + b
    return SInt(_i(a) + _i(b))


def SUB(a, b):
    if not _sym(a, b):
        return a - b
    return SInt(_i(a) - _i(b))


def MIN(a, b):
    if not _sym(a, b):
        return min(a, b)
    return SInt(z3.If(_i(a) <= _i(b), _i(a), _i(b)))


def MAX(a, b):
    if not _sym(a, b):
        return max(a, b)
    return SInt(z3.If(_i(a) >= _i(b), _i(a), _i(b)))


def ITE(c, a, b):
    if not _sym(c):
        return a if c else b
    if _sym(a, b) and (isinstance(a, (SInt, int)) and isinstance(b, (SInt, int))
                       and not isinstance(a, bool) and not isinstance(b, bool)):
        return SInt(z3.If(_z(c), _i(a), _i(b)))
    if isinstance(a, (SConst, str, type(None))) and isinstance(b, (SConst, str, type(None))):
        az = a.z if isinstance(a, SConst) else z3.IntVal(INTERN.id_of(a))
        bz = b.z if isinstance(b, SConst) else z3.IntVal(INTERN.id_of(b))
        dom = []
        for x in (a, b):
            if isinstance(x, SConst):
                if x.dom is None:
                    dom = None
                    break
                dom.extend(x.dom)
            else:
                dom.append(x)
        return SConst(z3.If(_z(c), az, bz), tuple(dict.fromkeys(dom)) if dom is not None else None)
    return SBool(z3.If(_z(c), _z(a), _z(b)))


TRUE = True
FALSE = False
