"""./check selftest — guards on the guard.

1. Sequence axioms vs CPython: for every construct of the sequence library and every concrete list of
   length <= 4 over a 3-letter alphabet, the axioms (a) are consistent with the concrete list and
   (b) force exactly CPython's result.
2. Engine vs CPython on the interpreter's semantics checklist (and/or operands, truthiness, chained
   comparison, dict.get, slicing with negative bounds, list.remove, [obj]*n aliasing, exceptions).
3. Canary mutants of the real code on a scratch copy: each must be refuted by a named obligation.
"""
import itertools
import json
import os
import subprocess
import sys
import time

import z3

from . import engine as E
from . import seqlib
from . import sym as S
from .sym import SInt, SList, SBool


def fresh_int_list(e, name="xs"):
    arr = z3.Function(S.fresh_name(name), z3.IntSort(), z3.IntSort())
    n = z3.Int(S.fresh_name(name + "_n"))
    e.assume(n >= 0)
    return SList(n, lambda j: SInt(arr(seqlib.zidx(j))), name), arr, n


def pin(xs_arr, n, conc):
    return [n == len(conc)] + [xs_arr(i) == v for i, v in enumerate(conc)]


def equals_concrete(e, r, want):
    """z3: symbolic list r equals the concrete list `want` (ints)"""
    cl = [r.length == len(want)]
    for j, v in enumerate(want):
        el = r.get(z3.IntVal(j))
        cl.append(el.z == v if isinstance(el, SInt) else z3.BoolVal(el == v))
    return z3.And(cl)


def axiom_checks():
    results = []
    alphabet = [0, 1, 2]
    lists = [list(t) for n in range(0, 5) for t in itertools.product(alphabet, repeat=n)]

    def run(name, build, py, params=[None]):
        bad = 0
        total = 0
        determined = 0
        for par in params:
            eng = E.Engine(timeout_ms=5000)

            def thunk(e):
                xs, arr, n = fresh_int_list(e)
                r = build(e, xs, par)
                return xs, arr, n, r
            outs = eng.explore(thunk, keep=True)
            # single path expected for pure constructions; for forking constructs check each path
            for kind, val, path in outs:
                if kind != "ok":
                    continue
                xs, arr, n, r = val
                s = path.solver
                for conc in lists:
                    want = py(conc, par)
                    if want is None:
                        continue
                    s.push()
                    s.add(*pin(arr, n, conc))
                    feasible = s.check()
                    if feasible == z3.sat:
                        total += 1
                        if isinstance(r, SList):
                            claim = equals_concrete(eng, r, want)
                        elif isinstance(r, (SBool, SInt)):
                            claim = r.z == want
                        else:
                            claim = z3.BoolVal(r == want)
                        # soundness: CPython's answer must be consistent with the axioms
                        s.push()
                        s.add(claim)
                        if s.check() == z3.unsat:
                            bad += 1
                        s.pop()
                        # completeness (informative): the axioms force CPython's answer
                        s.add(z3.Not(claim))
                        if s.check() == z3.unsat:
                            determined += 1
                    s.pop()
            # every concrete list must be feasible on some path
            for conc in lists:
                if py(conc, par) is None:
                    continue
                ok = False
                for kind, val, path in outs:
                    if kind != "ok":
                        continue
                    s = path.solver
                    s.push()
                    s.add(*pin(val[1], val[2], conc))
                    if s.check() == z3.sat:
                        ok = True
                    s.pop()
                    if ok:
                        break
                if not ok:
                    bad += 1
        results.append({"construct": name, "cases": total, "mismatches": bad, "determined": determined})

    ge1 = lambda x: x.z >= 1 if isinstance(x, SInt) else x >= 1
    run("filter", lambda e, xs, p: seqlib.slist_filter(e, xs, lambda x: SBool(x.z >= 1)),
        lambda c, p: [x for x in c if x >= 1])
    run("filter.len>0", lambda e, xs, p: SBool(seqlib.slist_filter(e, xs, lambda x: SBool(x.z == 2)).length > 0),
        lambda c, p: any(x == 2 for x in c))
    run("map", lambda e, xs, p: seqlib.slist_map(e, xs, lambda x: SInt(x.z + 1)), lambda c, p: [x + 1 for x in c])
    run("slice[:a]", lambda e, xs, p: seqlib.slist_subscript(e, xs, slice(None, p)), lambda c, p: c[:p], params=range(-3, 6))
    run("slice[a:]", lambda e, xs, p: seqlib.slist_subscript(e, xs, slice(p, None)), lambda c, p: c[p:], params=range(-3, 6))
    run("slice[:sym]", lambda e, xs, p: seqlib.slist_subscript(e, xs, ("slice", None, SInt(z3.IntVal(p)), None)),
        lambda c, p: c[:p], params=range(-3, 6))

    def do_del(e, xs, p):
        ys = SList(xs.length, xs.get, "ys")
        seqlib.slist_delete(e, ys, p)
        return ys
    run("del", do_del, lambda c, p: (c[:p] + c[p + 1:]) if 0 <= p < len(c) else None, params=range(0, 4))

    def do_store(e, xs, p):
        ys = SList(xs.length, xs.get, "ys")
        seqlib.slist_store(e, ys, p, SInt(z3.IntVal(7)))
        return ys
    run("store", do_store, lambda c, p: (c[:p] + [7] + c[p + 1:]) if 0 <= p < len(c) else None, params=range(0, 4))
    run("zip+unzip0", lambda e, xs, p: seqlib.m_list(e, [seqlib.m_zip(e, [("*", seqlib.m_zip(e, [xs, xs], {}, True))], {}, True)], {}, True),
        lambda c, p: None)  # forking construct: covered by the ground companions of the eta unit
    run("zip", lambda e, xs, p: seqlib.slist_map(e, seqlib.m_zip(e, [xs, seqlib.slist_map(e, xs, lambda x: SInt(x.z * 0 + 5))], {}, True),
                                                 lambda t: SInt(t[0].z + t[1].z)),
        lambda c, p: [x + 5 for x in c])
    run("contains", lambda e, xs, p: SBool(e.slist_contains(SInt(z3.IntVal(p)), xs)), lambda c, p: p in c, params=range(0, 3))
    run("all", lambda e, xs, p: seqlib._quant_bool(e, seqlib.slist_map(e, xs, lambda x: SBool(x.z >= 1)), True),
        lambda c, p: all(x >= 1 for x in c))
    run("any", lambda e, xs, p: seqlib._quant_bool(e, seqlib.slist_map(e, xs, lambda x: SBool(x.z >= 2)), False),
        lambda c, p: any(x >= 2 for x in c))
    run("replicate", lambda e, xs, p: seqlib.replicate(e, [SInt(z3.IntVal(9))], SInt(z3.IntVal(p))), lambda c, p: [9] * p, params=range(-1, 4))

    # loops over a list of symbolic length summarised as selections (engine.summarise_selection_loop),
    # interpreted from source, against CPython running the same source
    loop_srcs = {
        "loop.if-append": "def g(xs):\n    out = []\n    for x in xs:\n        if x >= 1:\n            out.append(x + 1)\n    return out",
        "loop.continue-append": "def g(xs):\n    out = [7]\n    for x in xs:\n        if x == 0:\n            continue\n        if x != 2:\n            out.append(x)\n    return out",
        "loop.enumerate": "def g(xs):\n    out = []\n    for i, x in enumerate(xs):\n        if x >= 1:\n            out.append(i)\n    return out",
    }
    for lname, src in loop_srcs.items():
        ns = {}
        exec(compile(src, "<selftest %s>" % lname, "exec"), ns)
        g = ns["g"]
        import types as _types
        fn_ast = __import__("ast").parse(src).body[0]

        def build(e, xs, p, fn_ast=fn_ast, g=g):
            env = E.Env({"xs": xs}, dict(g.__globals__), None, "g", fn_ast)
            try:
                e.exec_block(fn_ast.body, env)
            except E._Return as r:
                return r.value
            return None
        run(lname, build, lambda c, p, g=g: g(list(c)))

    def card(e, xs, p):
        e.path.notes["card_lemmas"] = True
        a = seqlib.slist_filter(e, xs, lambda x: SBool(x.z >= 1))
        b = seqlib.slist_filter(e, xs, lambda x: SBool(x.z == 0))
        return SInt(a.length + b.length)
    run("card_lemmas", card, lambda c, p: len(c))
    return results


def semantics_checks():
    """interpreter vs CPython on small programs (concrete): results must be identical"""
    progs = [
        "def f():\n    return (0 or [] or 'x', 1 and 0 and 2, None or 0)",
        "def f():\n    return (1 < 2 < 3, 1 < 3 < 2, 2 > 1 == 1)",
        "def f():\n    d = {'a': None}\n    return (d.get('a', 5), d.get('b', 5), d.get('b'))",
        "def f():\n    xs = [1, 2, 3, 4]\n    return (xs[:-1], xs[-2:], xs[:10], xs[5:], xs[1:3])",
        "def f():\n    xs = [1, 2, 1]\n    xs.remove(1)\n    return xs",
        "def f():\n    xs = [{'s': 0}] * 3\n    xs[0]['s'] = 1\n    return [x['s'] for x in xs]",
        "def f():\n    try:\n        return {}['k']\n    except KeyError as e:\n        return 'caught'",
        "def f():\n    out = []\n    for i, x in enumerate(['a', 'b']):\n        if x == 'a':\n            continue\n        out.append((i, x))\n    return out",
        "def f():\n    return ['%s__r%s' % ('t', str(0)), 'x' in 'xyz', 'x' in ['xyz'], isinstance(True, int)]",
        "def f():\n    return sorted([(2, 'b'), (1, 'z'), (1, 'a')], key=lambda x: x[0])",
        "def f():\n    return [k for k, v in {'a': 1, 'b': 0}.items() if v], {k: v for k, v in [('x', 1)]}",
        "def f():\n    a = b = []\n    a.append(1)\n    x, (y, z) = 1, (2, 3)\n    return b, x + y + z",
        "def f():\n    n = 0\n    while n < 3:\n        n += 1\n        if n == 2:\n            break\n    else:\n        n = 99\n    return n",
        "def f():\n    return (not [], not [0], bool(''), bool('0'), 1 if [] else 2)",
        "class A(object):\n    def __init__(self, v):\n        self.v = v\n    def m(self):\n        return [self.v]\nclass B(A):\n    def __init__(self, v):\n        super().__init__(v + 1)\n    def m(self):\n        return super().m() + [0]\ndef f():\n    return B(1).m()",
    ]
    import tempfile, importlib.util
    out = []
    d = tempfile.mkdtemp(prefix="pyvc_selftest_")
    try:
        for k, src in enumerate(progs):
            path = os.path.join(d, "prog%d.py" % k)
            with open(path, "w") as f:
                f.write(src + "\n")
            spec = importlib.util.spec_from_file_location("orquesta._selftest_prog%d" % k, path)
            mod = importlib.util.module_from_spec(spec)
            spec.loader.exec_module(mod)
            mod.f.__module__ = "orquesta._selftest"
            want = mod.f()
            eng = E.Engine()
            got = []
            eng.explore(lambda e: got.append(e.call(mod.f, [], {})))
            out.append({"program": src.splitlines()[1].strip() if len(src.splitlines()) > 1 else src, "ok": got == [want],
                        "got": repr(got), "want": repr(want)})
    finally:
        import shutil
        shutil.rmtree(d, ignore_errors=True)
    return out


CANARY_MUTANTS = [
    ("machines.py", "events.TASK_FAILED_WORKFLOW_DORMANT: statuses.FAILED,\n        # A task is remediated",
     "events.TASK_FAILED_WORKFLOW_DORMANT: statuses.RUNNING,\n        # A task is remediated", "C02", "C02.pte.unhandled_failure_fails"),
    ("conducting.py", "if retry_tally >= retry_count:", "if retry_tally > retry_count:", "C13", "C13.etr.bound"),
    ("conducting.py", "availability = task[\"concurrency\"] - len(active_items)", "availability = task[\"concurrency\"] - len(active_items) + 1", "C12", "C12.eta.window"),
    ("conducting.py", "if self.get_workflow_status() not in statuses.RUNNING_STATUSES and not remediation_tasks:",
     "if self.get_workflow_status() not in statuses.ACTIVE_STATUSES and not remediation_tasks:", "C04", "C04.gnt.guard"),
    ("conducting.py", "return sorted(next_tasks, key=lambda x: (x[\"id\"], x[\"route\"]))", "return next_tasks", "C19", "C19.gnt.sorted"),
    ("conducting.py", "if list(inbound_evaluation.values()).count(True) >= requirement:", "if list(inbound_evaluation.values()).count(True) > requirement:", "C07", "C07.gics.satisfied_iff"),
    ("conducting.py", "\"contexts\": json_util.deepcopy(self.contexts),", "\"contexts\": self.contexts,", "C05", "C05.ws.fresh"),
    ("utils/dictionary.py", "            elif overwrite:\n                left[k] = v", "            elif overwrite and not isinstance(left_v, dict):\n                left[k] = v", "C06", "C06.merge_dicts.spec"),
]


def canary_mutants(tier):
    """apply each canary to a scratch worktree (outside /repo and /verif) and require its refutation"""
    verif = os.path.dirname(os.path.dirname(os.path.abspath(__file__)))
    results = []
    for k, (rel, old, new, prop, obligation) in enumerate(CANARY_MUTANTS):
        scratch = "/tmp/pyvc_canary_%d" % k
        out = "/tmp/pyvc_canary_out_%d" % k
        subprocess.run("rm -rf %s %s; git -C /repo worktree prune; git -C /repo worktree add -q --detach %s HEAD" % (scratch, out, scratch),
                       shell=True, capture_output=True)
        try:
            p = os.path.join(scratch, "orquesta", rel)
            src = open(p).read()
            if src.count(old) != 1:
                results.append({"mutant": "%s: %s" % (rel, new[:50]), "status": "anchor-missing"})
                continue
            open(p, "w").write(src.replace(old, new))
            r = subprocess.run("VERIF_REPO=%s VERIF_OUT=%s ./check %s --tier quick" % (scratch, out, prop), shell=True,
                               cwd=verif, capture_output=True, text=True)
            killed = r.returncode == 1 and ("obligation=%s" % obligation) in r.stdout
            results.append({"mutant": "%s: %s" % (rel, new[:60]), "property": prop, "expected_obligation": obligation,
                            "killed": killed, "exit": r.returncode})
        finally:
            subprocess.run("git -C /repo worktree remove --force %s; git -C /repo worktree prune; rm -rf %s %s" % (scratch, scratch, out),
                           shell=True, capture_output=True)
    return results


def main(tier, seed):
    t0 = time.time()
    ax = axiom_checks()
    sem = semantics_checks()
    mut = canary_mutants(tier) if tier == "thorough" or os.environ.get("VERIF_SELFTEST_MUTANTS") else []
    verif = os.path.dirname(os.path.dirname(os.path.abspath(__file__)))
    out = {"sequence_axioms_vs_cpython": ax, "interpreter_vs_cpython": sem, "canary_mutants": mut,
           "wall_s": round(time.time() - t0, 1)}
    os.makedirs(os.path.join(verif, "evidence"), exist_ok=True)
    with open(os.path.join(verif, "evidence", "selftest.json"), "w") as f:
        json.dump(out, f, indent=1)
    bad = [a for a in ax if a["mismatches"]] + [s for s in sem if not s["ok"]]
    for a in ax:
        print("axiom %-14s cases=%-5d contradicting_cpython=%d forced_exactly=%d" % (a["construct"], a["cases"], a["mismatches"], a["determined"]))
    print("interpreter programs: %d/%d agree with CPython" % (sum(1 for s in sem if s["ok"]), len(sem)))
    for s in sem:
        if not s["ok"]:
            print("  MISMATCH", s)
    for m in mut:
        print("canary", m)
    surv = [m for m in mut if not m.get("killed")]
    if bad:
        print("SELFTEST FAILED")
        return 3
    print("selftest ok (%d canary mutants, %d survivors)" % (len(mut), len(surv)))
    return 0
