"""Run single units by class name (development aid): tools/run_unit.py [--tier T] <ClassName>..."""
import importlib, json, os, sys
sys.path.insert(0, os.path.dirname(os.path.dirname(os.path.abspath(__file__))))
from pyvc import framework as FW
from contracts import registry


def main():
    args = sys.argv[1:]
    tier = "quick"
    if args and args[0] == "--tier":
        tier, args = args[1], args[2:]
    units = []
    for mod, cls in registry.UNITS:
        if cls in args:
            units.append((mod, cls))
    os.environ["VERIF_NOCACHE"] = "1"
    outs, _ = FW.run_units(units, tier, 0)
    bad = 0
    for o in outs:
        if o.get("unsupported"):
            print("UNSUPPORTED", o["unsupported"]); bad += 1
        if o.get("error"):
            print("ERROR", o["unit"], o["split"], o["error"][-1500:]); bad += 1
            continue
        for r in o.get("records", []):
            if r.get("status") not in ("discharged", "known"):
                bad += 1
                print(json.dumps({k: v for k, v in r.items() if k not in ("smt2",)}, default=str)[:1500])
    n = sum(len(o.get("records", [])) for o in outs)
    print("splits=%d records=%d not-discharged=%d" % (len(outs), n, bad))


if __name__ == "__main__":
    main()
