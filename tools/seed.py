#!/venv/bin/python
"""Seeded-change management.

  seed.py confirm <worktree> <A|B> <seed-name> <property>   confirm an agent's change in its scratch worktree
        (suite passes with it, demo fails with it and passes without) and store it under seeded/<name>/
  seed.py benign <patch.diff> [props...]                     a behaviour-preserving change: all checks must exit 0
  seed.py run <seed-name>|all [props...]                     apply to /repo, run the quick checks, undo; report who catches it
"""
import json
import os
import subprocess
import sys
import time

VERIF = os.path.dirname(os.path.dirname(os.path.abspath(__file__)))
PY = "/venv/bin/python"


def sh(cmd, cwd=None, timeout=1800):
    p = subprocess.run(cmd, shell=True, cwd=cwd, capture_output=True, text=True, timeout=timeout)
    return p.returncode, p.stdout + p.stderr


def confirm(wt, which, name, prop):
    out = os.path.join(wt, "_out")
    patch = os.path.join(out, "patch%s.diff" % which)
    demo = os.path.join(out, "demo%s.py" % which)
    assert os.path.exists(patch) and os.path.exists(demo), (patch, demo)
    sh("git reset -q --hard; git checkout -q --detach main && git checkout -- .", cwd=wt)
    rc, o = sh("git status --short | grep -v '^??'", cwd=wt)
    rc, o = sh("git apply --3way %s || patch -p1 < %s" % (patch, patch), cwd=wt)
    assert rc == 0, "patch does not apply: " + o
    sh("git reset -q", cwd=wt)
    rc_t, o_t = sh("%s -m pytest -q -p no:cacheprovider -n 8 2>&1 | tail -1" % PY, cwd=wt)
    rc_d1, o_d1 = sh("%s %s" % (PY, demo), cwd=wt)
    rc, diff = sh("git diff", cwd=wt)
    sh("git checkout -- .", cwd=wt)
    rc_d0, o_d0 = sh("%s %s" % (PY, demo), cwd=wt)
    ok = ("passed" in o_t and "failed" not in o_t and "error" not in o_t) and rc_d1 != 0 and rc_d0 == 0
    print("suite with change:", o_t.strip())
    print("demo with change: exit", rc_d1, "| without: exit", rc_d0)
    if not ok:
        print("NOT CONFIRMED")
        print(o_d1[-1500:])
        print(o_d0[-1500:])
        return 1
    d = os.path.join(VERIF, "seeded", name)
    os.makedirs(d, exist_ok=True)
    with open(os.path.join(d, "patch.diff"), "w") as f:
        f.write(diff)
    with open(demo) as f:
        src = f.read()
    with open(os.path.join(d, "demo.py"), "w") as f:
        f.write(src)
    notes = ""
    if os.path.exists(os.path.join(out, "notes.md")):
        notes = open(os.path.join(out, "notes.md")).read()
    meta = {
        "property": prop, "name": name, "origin": "independent sub-agent given only the property text and a scratch worktree",
        "needs_to_manifest": "see notes.md",
        "confirmed": {
            "suite_with_change": o_t.strip(), "demo_exit_with_change": rc_d1, "demo_exit_without": rc_d0,
            "commands": ["cd <scratch worktree> && git apply patch.diff && /venv/bin/python -m pytest -q -p no:cacheprovider -n 8",
                         "/venv/bin/python demo.py   (with and without the change)"],
            "base_commit": sh("git rev-parse --short HEAD", cwd=wt)[1].strip(),
        },
        "demo_output_with_change": o_d1[-1200:],
    }
    with open(os.path.join(d, "meta.json"), "w") as f:
        json.dump(meta, f, indent=1)
    with open(os.path.join(d, "notes.md"), "w") as f:
        f.write(notes)
    print("CONFIRMED ->", d)
    return 0


def claimed():
    m = json.load(open(os.path.join(VERIF, "MANIFEST.json")))
    return [c["property_id"] for c in m["checks"]]


def run(name, props=None):
    """Apply the change to a scratch worktree of /repo (outside /repo and /verif), run the quick checks
    against it (VERIF_REPO), remove the worktree."""
    d = os.path.join(VERIF, "seeded", name)
    patch = os.path.join(d, "patch.diff")
    meta_p = os.path.join(d, "meta.json")
    meta = json.load(open(meta_p))
    props = props or sorted(set([meta["property"]] + meta.get("also_run", [])))
    scratch = "/tmp/seedrun/%s" % name
    out = "/tmp/seedrun/out_%s" % name
    sh("rm -rf %s %s; mkdir -p /tmp/seedrun" % (scratch, out))
    sh("git worktree prune", cwd="/repo")
    rc, o = sh("git worktree add -q --detach %s HEAD" % scratch, cwd="/repo")
    assert rc == 0, o
    res = {}
    try:
        rc, o = sh("git apply %s || patch -p1 --no-backup-if-mismatch < %s" % (patch, patch), cwd=scratch)
        if rc != 0:
            print("patch does not apply:", o)
            return None
        for p in props:
            t0 = time.time()
            rc, o = sh("VERIF_REPO=%s VERIF_OUT=%s ./check %s --tier quick" % (scratch, out, p), cwd=VERIF)
            viol = [l for l in o.splitlines() if l.startswith("VIOLATION")]
            obl = sorted({l.split("obligation=")[1].split()[0] for l in viol if "obligation=" in l})
            replayed = sorted({l.split("obligation=")[1].split()[0] for l in viol
                               if "obligation=" in l and "no-failing-input-found" not in l})
            res[p] = {"exit": rc, "obligations": obl, "replayed": replayed, "wall": round(time.time() - t0, 1),
                      "other": [l for l in o.splitlines() if l.startswith(("CHECKER-FAULT", "UNDECIDED"))][:3]}
    finally:
        sh("git worktree remove --force %s; git worktree prune" % scratch, cwd="/repo")
        sh("rm -rf %s %s" % (scratch, out))
    caught = {p: r["obligations"] for p, r in res.items() if r["exit"] == 1}
    print("%-45s caught_by=%s" % (name, json.dumps(caught)))
    for p, r in res.items():
        if r["exit"] not in (0, 1):
            print("   %s exit=%d %s" % (p, r["exit"], r["other"]))
    prev = meta.get("caught_by", {})
    prev.update(caught)
    for p in props:
        if p not in caught and p in prev:
            del prev[p]
    meta["caught_by"] = prev
    meta.setdefault("check_exits", {}).update({p: r["exit"] for p, r in res.items()})
    meta["replayed_natively"] = {p: r["replayed"] for p, r in res.items() if r["replayed"]}
    json.dump(meta, open(meta_p, "w"), indent=1)
    return res


def benign(patch, props=None):
    """A behaviour-preserving change: every claimed check must still exit 0 on it."""
    name = os.path.basename(patch).replace(".diff", "")
    scratch = "/tmp/seedrun/benign_%s" % name
    out = "/tmp/seedrun/out_benign_%s" % name
    sh("rm -rf %s %s; mkdir -p /tmp/seedrun" % (scratch, out))
    sh("git worktree prune", cwd="/repo")
    rc, o = sh("git worktree add -q --detach %s HEAD" % scratch, cwd="/repo")
    assert rc == 0, o
    bad = {}
    try:
        patch = os.path.abspath(patch)
        rc, o = sh("git apply %s || patch -p1 --no-backup-if-mismatch < %s" % (patch, patch), cwd=scratch)
        if rc != 0:
            print("patch does not apply:", o)
            return None
        for p in props or claimed():
            rc, o = sh("VERIF_REPO=%s VERIF_OUT=%s ./check %s --tier quick" % (scratch, out, p), cwd=VERIF)
            if rc != 0:
                bad[p] = (rc, [l[:400] for l in o.splitlines() if l.startswith(("VIOLATION", "CHECKER-FAULT", "UNDECIDED"))][:4])
    finally:
        sh("git worktree remove --force %s; git worktree prune" % scratch, cwd="/repo")
        sh("rm -rf %s %s" % (scratch, out))
    print("%-30s %s" % (name, "all checks exit 0" if not bad else "FALSE ALARM / UNDECIDED: " + json.dumps(bad, indent=1)))
    rp = os.path.join(VERIF, "benign", "results.json")
    res = json.load(open(rp)) if os.path.exists(rp) else {}
    res[name] = "all %d checks exit 0" % len(props or claimed()) if not bad else "NOT ALL ZERO: %s" % sorted(bad)
    json.dump(res, open(rp, "w"), indent=1, sort_keys=True)
    return bad


if __name__ == "__main__":
    if sys.argv[1] == "benign":
        sys.exit(1 if benign(sys.argv[2], sys.argv[3:] or None) else 0)
    if sys.argv[1] == "confirm":
        sys.exit(confirm(*sys.argv[2:6]))
    if sys.argv[1] == "run":
        names = sorted(os.listdir(os.path.join(VERIF, "seeded"))) if sys.argv[2] == "all" else [sys.argv[2]]
        for n in names:
            run(n, sys.argv[3:] or None)
