#!/venv/bin/python
"""Regenerate MANIFEST.json from the unit registry + the per-property notes below."""
import json
import os
import sys

VERIF = os.path.dirname(os.path.dirname(os.path.abspath(__file__)))
sys.path.insert(0, VERIF)
sys.path.insert(0, os.path.join(VERIF, ".deps"))

from pyvc import cli  # noqa: E402

TECH = ("contract-based deductive verification: sidecar contracts on the real functions, verification "
        "conditions generated from /repo's ASTs by symbolic execution (pyvc), discharged by z3 (cvc5 re-check in thorough)")

NOTES = {}
NA = {}


def load_notes():
    p = os.path.join(VERIF, "tools", "manifest_notes.json")
    with open(p) as f:
        d = json.load(f)
    return d["claimed"], d["not_applicable"]


def main():
    claimed, na = load_notes()
    props = [json.loads(l)["id"] for l in open(os.path.join(VERIF, "properties.jsonl"))]
    served = {}
    for mod, cls, u in cli.all_units():
        for name, o in u.obligations.items():
            for p in o["props"]:
                served.setdefault(p, set()).add(u.name)
    checks = []
    not_applicable = []
    kf = json.load(open(os.path.join(VERIF, "known_findings.json")))
    hist_units = ("H.join_context_histories", "H.join_barrier_histories", "H.late_start_histories", "H.open_histories", "H.hunt_witnesses")
    for p in props:
        if p in served and p in claimed:
            c = dict(claimed[p])
            open_ids = sorted(x["id"] for x in kf if x.get("status") == "open" and p in x["properties"])
            fixed_ids = sorted(x["id"] for x in kf if x.get("status", "").startswith("fixed") and p in x["properties"])
            extra = []
            if any(h in served[p] for h in hist_units):
                extra.append("Whole-history clauses are not proved: they are sampled by native history witnesses (units H.*, bounded, concrete histories through the public API under the provider protocol P1-P5 of DESIGN 3.4).")
            if open_ids:
                extra.append("Open known findings for this property (genuine defects recorded, not repaired; KNOWN-FINDING lines, excuse predicates in findings/excuses.py): %s." % ", ".join(open_ids))
            if fixed_ids:
                extra.append("Defects repaired in /repo by fix: commits and guarded by obligations of this check: %s." % ", ".join(fixed_ids))
            c["note"] = (c["note"] + " " + " ".join(extra)).strip()
            lvl = "proof"
            evp = os.path.join(VERIF, "evidence", "%s.json" % p)
            if os.path.exists(evp):
                lvl = json.load(open(evp)).get("level", "proof")
            checks.append({
                "property_id": p,
                "quick_cmd": "./check %s --tier quick" % p,
                "thorough_cmd": "./check %s --tier thorough" % p,
                "evidence_file": "/verif/evidence/%s.json" % p,
                "replay_cmd_template": "./check replay {path}",
                "engine": "pyvc",
                "level_claimed": {"category": lvl, "text": c["text"], "design_ref": c.get("design_ref", "DESIGN.md §4 " + p)},
                "level_note": c["note"],
                "technique": c.get("technique", TECH),
            })
        else:
            not_applicable.append({"property_id": p, "reason": na.get(p, "no check built for this property yet")})
    man = {
        "version": 1,
        "setup_cmd": "./setup.sh",
        "hooks": {
            "guard": "STACKSTORM_ORQUESTA_VERIF",
            "enable": "none needed: contracts are sidecars under /verif/contracts, /repo is read and imported as is (no hook commits)",
            "baseline_off_cmd": "cd /repo && /venv/bin/python -m pytest -ra -q -p no:cacheprovider --timeout=900 --continue-on-collection-errors",
            "source_commits": [],
            "add_only": True,
        },
        "engines": [{
            "name": "pyvc", "path": "/verif/pyvc",
            "serves_properties": [c["property_id"] for c in checks],
            "kind_free_text": "home-grown verification-condition generator: interprets the real function ASTs of /repo path-wise (decision replay), concrete values stay CPython objects, symbolic data in z3 (Bool, Int, interned constants, sequence axioms); modular calls via sidecar contracts; counter-models replayed natively on the real code",
        }],
        "checks": checks,
        "not_applicable": not_applicable,
        "notes": "Exit codes of ./check: 0 discharged, 1 VIOLATION, 2 undecided (unsupported construct / solver unknown; never reported as violation), 3 checker fault. Known findings: /verif/known_findings.json. Genuine defects repaired in /repo by fix: commits are listed there as fixed entries.",
    }
    with open(os.path.join(VERIF, "MANIFEST.json"), "w") as f:
        json.dump(man, f, indent=1)
    print("claimed:", [c["property_id"] for c in checks])
    print("not_applicable:", [c["property_id"] for c in not_applicable])


if __name__ == "__main__":
    main()
