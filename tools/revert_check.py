#!/venv/bin/python
"""For every repaired finding of known_findings.json: revert its fix commit(s) on a scratch worktree of
/repo (outside /repo and /verif) and require that the check of one of its properties reports a
violation of one of the obligations listed for it.  Results -> findings/revert_results.json."""
import json, os, subprocess, sys, time
VERIF = os.path.dirname(os.path.dirname(os.path.abspath(__file__)))


def sh(cmd, cwd=None):
    p = subprocess.run(cmd, shell=True, cwd=cwd, capture_output=True, text=True)
    return p.returncode, p.stdout + p.stderr


def main():
    kf = json.load(open(os.path.join(VERIF, "known_findings.json")))
    only = sys.argv[1:]
    outp = os.path.join(VERIF, "findings", "revert_results.json")
    res = json.load(open(outp)) if os.path.exists(outp) else {}
    for f in kf:
        if not f["status"].startswith("fixed") or (only and f["id"] not in only):
            continue
        commits = f["status"].split()[2].split(",")
        scratch, out = "/tmp/revertrun/%s" % f["id"], "/tmp/revertrun/out_%s" % f["id"]
        sh("rm -rf %s %s; mkdir -p /tmp/revertrun; git worktree prune" % (scratch, out), cwd="/repo")
        rc, o = sh("git worktree add -q --detach %s HEAD" % scratch, cwd="/repo")
        assert rc == 0, o
        try:
            ok = True
            for c in reversed(commits):
                rc, o = sh("git revert --no-commit %s" % c, cwd=scratch)
                if rc != 0:
                    ok = False
                    break
            if not ok:
                res[f["id"]] = {"result": "revert does not apply cleanly on the final tree (later repairs touch the same lines)", "commits": commits}
                print(f["id"], res[f["id"]]["result"])
                continue
            verdicts = {}
            for prop in f["properties"][:2]:
                t0 = time.time()
                rc, o = sh("VERIF_REPO=%s VERIF_OUT=%s ./check %s --tier quick" % (scratch, out, prop), cwd=VERIF)
                obl = sorted({l.split("obligation=")[1].split()[0] for l in o.splitlines() if l.startswith("VIOLATION") and "obligation=" in l})
                verdicts[prop] = {"exit": rc, "violated": obl, "listed_hit": sorted(set(obl) & set(f["obligations"])), "wall": round(time.time() - t0)}
                if rc == 1 and set(obl) & set(f["obligations"]):
                    break
            hit = any(v["exit"] == 1 and v["listed_hit"] for v in verdicts.values())
            any_v = any(v["exit"] == 1 for v in verdicts.values())
            res[f["id"]] = {"result": "reverting the repair is reported by a listed obligation" if hit else
                            ("reverting the repair is reported, by other obligations" if any_v else "NOT REPORTED"),
                            "commits": commits, "checks": verdicts}
            print(f["id"], res[f["id"]]["result"], {p: v["listed_hit"] or v["violated"][:3] for p, v in verdicts.items()})
        finally:
            sh("git worktree remove --force %s; git worktree prune" % scratch, cwd="/repo")
            sh("rm -rf %s %s" % (scratch, out))
            json.dump(res, open(outp, "w"), indent=1, sort_keys=True)


if __name__ == "__main__":
    main()
