#!/venv/bin/python
"""Regenerate the seeded-change table of DESIGN.md §9.6 from seeded/*/meta.json."""
import json, os, glob
V = os.path.dirname(os.path.dirname(os.path.abspath(__file__)))
rows = ["| seeded change | property | caught by (property: obligations) | counterexample replayed natively |", "|---|---|---|---|"]
n = c = neutral = 0
benign = []
for p in sorted(glob.glob(os.path.join(V, "seeded", "*", "meta.json"))):
    m = json.load(open(p))
    n += 1
    cb = m.get("caught_by") or {}
    if cb:
        c += 1
    txt = "; ".join("%s: %s" % (k, ", ".join(v)) for k, v in sorted(cb.items())) or "**not caught**"
    if not cb and m.get("neutralised"):
        neutral += 1
        txt = "no longer a violation: " + m["neutralised"]
    rp = m.get("replayed_natively") or {}
    rtxt = "; ".join("%s: %s" % (k, ", ".join(v)) for k, v in sorted(rp.items())) or "-"
    rows.append("| %s | %s | %s | %s |" % (m["name"], m["property"], txt, rtxt))
rows.append("")
rows.append("%d of %d seeded changes are caught by at least one check%s." % (
    c, n, ("; %d no longer break%s the property on the repaired tree (the seed's own demonstration passes with the patch applied)" % (neutral, "s" if neutral == 1 else "")) if neutral else ""))
bp = os.path.join(V, "benign", "results.json")
if os.path.exists(bp):
    br = json.load(open(bp))
    rows.append("")
    rows.append("Behaviour-preserving refactorings (`tools/seed.py benign`, all 19 checks must exit 0): " +
                "; ".join("%s: %s" % (k, v) for k, v in sorted(br.items())) + ".")
s = open(os.path.join(V, "DESIGN.md")).read()
a = s.index("<!-- SEED-TABLE-BEGIN -->") + len("<!-- SEED-TABLE-BEGIN -->")
b = s.index("<!-- SEED-TABLE-END -->")
s = s[:a] + "\n" + "\n".join(rows) + "\n" + s[b:]
open(os.path.join(V, "DESIGN.md"), "w").write(s)
print("%d/%d caught" % (c, n))
