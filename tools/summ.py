import json,glob,sys,collections
prop=sys.argv[1]
by=collections.defaultdict(list)
for p in glob.glob('/verif/replays/%s/*.json'%prop):
    d=json.load(open(p)); i=d['inputs'] or {}
    facts=''.join(k if i.get(k) else '' for k in ['A','SG','HN','BN','CG','CD','PG','PD','UB']) if 'A' in i else json.dumps({k:v for k,v in i.items() if k not in('old','ev')})[:150]
    by[d['obligation']].append((i.get('old'),i.get('ev',i.get('req')),facts,d.get('native_replay'),json.dumps(d.get('observed'))[:120]))
for k,v in sorted(by.items()):
    print(k)
    for x in sorted(set(v), key=str): print('   ',x)
