from witness_lib import *
c = conductor("""
version: 1.0
vars:
  - cfg:
      base: 1
tasks:
  init:
    action: core.noop
    next:
      - publish:
          - cfg:
              left: 10
        do: a
  a:
    action: core.echo message=<% ctx(cfg) %>
""")
offered(c); ac(c, "init", st.RUNNING); ac(c, "init", st.SUCCEEDED)
seen = [t for t in c.get_next_tasks() if t["id"] == "a"][0]["ctx"]["cfg"]
verdict("F3", seen != {"left": 10}, "task a sees cfg=%s after publish cfg={'left': 10} over {'base': 1}" % seen)
