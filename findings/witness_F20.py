from witness_lib import *
from orquesta import conducting
c = conductor("""
version: 1.0
tasks:
  init:
    action: core.noop
    next:
      - do: a1, a2
  a1:
    action: core.noop
    next:
      - publish: x=1
        do: b
  a2:
    action: core.noop
    next:
      - publish: y=2
        do: b
  b:
    action: core.flaky
    retry:
      count: 2
    next:
      - when: <% failed() %>
        do: a1
""")
offered(c); ac(c, "init", st.RUNNING); ac(c, "init", st.SUCCEEDED)
ac(c, "a1", st.RUNNING); ac(c, "a2", st.RUNNING); ac(c, "a1", st.SUCCEEDED)
ac(c, "b", st.RUNNING); ac(c, "b", st.FAILED, result="boom")     # b is retried: re-staged from its record
rec = [r for r in c.workflow_state.sequence if r["id"] == "b"][-1]
before = (list(rec["ctxs"]["in"]), dict(rec["prev"]))
twin = conducting.WorkflowConductor.deserialize(c.serialize())
ac(c, "a2", st.SUCCEEDED); ac(twin, "a2", st.SUCCEEDED)           # another arrival while b waits for its retry
rec = [r for r in c.workflow_state.sequence if r["id"] == "b"][-1]
trec = [r for r in twin.workflow_state.sequence if r["id"] == "b"][-1]
after = (list(rec["ctxs"]["in"]), dict(rec["prev"]))
verdict("F20", before != after or (rec["ctxs"], rec["prev"]) != (trec["ctxs"], trec["prev"]),
        "retried record before=%s after=%s restored twin=%s" % (before, after, (trec["ctxs"]["in"], trec["prev"])))
