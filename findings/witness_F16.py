import subprocess, sys, os, json
prog = r'''
import json
from orquesta.specs import native as specs
d = {"version": 1.0, "tasks": {"t1": {"action": "core.noop", "input": {
    "p": "<% ctx().zeta %> {{ ctx().zeta }}", "q": "{{ ctx().zeta }} and <% ctx().zeta %>"}}}}
rep = specs.WorkflowSpec(d).inspect()
print(json.dumps(rep.get("context", [])))
'''
outs = set()
for seed in range(8):
    env = dict(os.environ, PYTHONHASHSEED=str(seed))
    outs.add(subprocess.run([sys.executable, "-c", prog], env=env, capture_output=True, text=True).stdout)
print("F16: %s  %d distinct inspection reports over 8 hash seeds" % ("DEFECT-PRESENT" if len(outs) > 1 else "holds", len(outs)))
sys.exit(1 if len(outs) > 1 else 0)
