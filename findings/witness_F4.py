from witness_lib import *
c = conductor("""
version: 1.0
tasks:
  a:
    action: core.noop
    next:
      - do: fail
""")
offered(c); ac(c, "a", st.RUNNING)
c.request_workflow_status(st.PAUSING)
ac(c, "a", st.SUCCEEDED)
s1 = c.get_workflow_status()
if s1 == st.PAUSED:
    c.request_workflow_status(st.RESUMING)
verdict("F4", c.get_workflow_status() == st.SUCCEEDED, "after fail command while pausing: %s -> %s" % (s1, c.get_workflow_status()))
