"""Excuse predicates of the known findings: each describes exactly the failing class of one
recorded defect over the obligation's named values, so that any *other* way of breaking the same
obligation is still reported as a violation."""
from orquesta import statuses as st
from pyvc.spec import AND, OR, NOT, IMPLIES, EQ, NE, IN, NOTIN
