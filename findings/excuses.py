"""Excuse predicates of the known findings: each describes exactly the failing class of one
recorded defect over the obligation's named values, so that any *other* way of breaking the same
obligation is still reported as a violation."""
from orquesta import statuses as st
from pyvc.spec import AND, OR, NOT, IMPLIES, EQ, NE, IN, NOTIN


def F3_blend(v):
    """a dict value published over an earlier dict value of the same variable is merged key-wise
    (blended) instead of superseding it — exactly the dict-over-dict case"""
    return bool(v and v.get("blend"))


def F7_no_candidates(v):
    """a rerun that selects no execution at all (no abended terminal task and no explicit request)"""
    return bool(v and v.get("no_candidates"))


def F11_late_arrival(v):
    """a further satisfied inbound transition arrives at a join (join: N with N smaller than the number of
    inbound tasks, or a join in a cycle) whose execution for the already satisfied barrier is still in flight"""
    return bool(v and v.get("late_arrival_at_running_join"))


def F9_inherited_override(v):
    """the recorded history: publish on `do: a, b`, a re-publishes, b (which only inherited) arrives last"""
    return bool(v and v.get("history") == "F9")


def F25_stale_iteration(v):
    """the recorded histories: second iteration of a loop through a join, one branch of the new
    iteration completes while its sibling has been offered but has not reported yet"""
    h = (v or {}).get("history") or ""
    return h.startswith("cycle/") and h.endswith("-not-started")


def _history_is(*names):
    def fn(v):
        return bool(v) and v.get("history") in names
    return fn


F32_cancel_before_successor = _history_is("cancel-while-publisher-runs")
F33_second_arrival_items = _history_is("items/second-arrival-while-items-run")
F34_overlapping_iteration = _history_is("loop-fork/side-of-iteration-1-still-running")
F35_default_rerun_fail_command = _history_is("fail-command/default-rerun")
F36_rerun_branch_above_join = _history_is("join-rerun/task1")
F37_late_failure_marked_terminal = _history_is("remediated/b-reports-first")
F39_completion_on_resume_term = _history_is("pause-before-last-report/unreachable-join")


def _hunt(fid):
    return _history_is("hunt/%s" % fid)


for _f in ("F53", "F54", "F55", "F56", "F57", "F58", "F59", "F60", "F61", "F62", "F63", "F65", "F66", "F67", "F68", "F73"):
    globals()["%s_hunt_witness" % _f] = _hunt(_f)
