from witness_lib import *
c = conductor("""
version: 1.0
tasks:
  a:
    action: core.noop
    retry:
      when: <% result().missing_key > 1 %>
      count: 2
""")
offered(c); ac(c, "a", st.RUNNING)
try:
    ac(c, "a", st.SUCCEEDED, result={"x": 1})
except Exception as e:
    verdict("F12", True, "retry condition error escaped update_task_state: %s: %s" % (type(e).__name__, e))
ok = c.get_workflow_status() == st.FAILED and any(x.get("task_id") == "a" for x in c.errors) and not offered(c)
verdict("F12", not ok, "status=%s errors=%s" % (c.get_workflow_status(), c.errors))
