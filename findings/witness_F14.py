from witness_lib import *
from orquesta.specs import native as specs
d = {"version": 1.0, "tasks": {"t1": {"action": "core.noop", "retry": {"when": "<% ctx().ghost %>", "count": "<% ctx().ghost2 %>", "delay": 1}}}}
rep = specs.WorkflowSpec(d).inspect()
msgs = [x["message"] for x in rep.get("context", [])]
verdict("F14", not (any('"ghost"' in m for m in msgs) and any('"ghost2"' in m for m in msgs)), "inspection report for unassigned variables in retry when/count: %s" % msgs)
