from witness_lib import *
# canceled while paused: nothing is terminal; the output must still see the workflow input,
# exactly as when the cancel lands while a task is still running
DEF = """
version: 1.0
input:
  - who
output:
  - greeting: <% ctx().who %>
tasks:
  a:
    action: core.noop
    next:
      - do: b
  b:
    action: core.noop
"""
c = conductor(DEF, inputs={"who": "me"})
offered(c); ac(c, "a", st.RUNNING)
c.request_workflow_status(st.PAUSING); ac(c, "a", st.SUCCEEDED)
assert c.get_workflow_status() == st.PAUSED
c.request_workflow_status(st.CANCELED)
c.render_workflow_output()
paused_then_canceled = (c.get_workflow_status(), c.get_workflow_output(), len(c.errors))
t = conductor(DEF, inputs={"who": "me"})
offered(t); ac(t, "a", st.RUNNING)
t.request_workflow_status(st.CANCELING); ac(t, "a", st.SUCCEEDED)
t.render_workflow_output()
twin = (t.get_workflow_status(), t.get_workflow_output(), len(t.errors))
verdict("F26", paused_then_canceled != (st.CANCELED, {"greeting": "me"}, 0),
        "canceled while paused: %s; canceled while running: %s" % (paused_then_canceled, twin))
