from witness_lib import *
c = conductor("""
version: 1.0
tasks:
  a:
    action: core.noop
    next:
      - do: b
  b:
    action: core.noop
""")
offered(c); ac(c, "a", st.RUNNING); c.request_workflow_status(st.PAUSING); ac(c, "a", st.SUCCEEDED)
c.request_workflow_status(st.RESUMING)
offered(c); ac(c, "b", st.REQUESTED); ac(c, "b", st.PAUSED)
stuck = c.get_workflow_status() in st.RUNNING_STATUSES and not offered(c)
verdict("F10", stuck, "status=%s offered=%s" % (c.get_workflow_status(), offered(c)))
