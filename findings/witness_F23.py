from witness_lib import *
DEF = """
version: 1.0
output:
  - result: <% ctx(x) %>
tasks:
  a:
    action: core.noop
    next:
      - publish: x=1
        do: b
  b:
    action: core.noop
    next:
      - when: <% failed() %>
        do: c
  c:
    action: core.noop
"""
def run(pause):
    c = conductor(DEF)
    offered(c); ac(c, "a", st.RUNNING); ac(c, "a", st.SUCCEEDED)
    offered(c); ac(c, "b", st.RUNNING)
    if pause:
        c.request_workflow_status(st.PAUSING)
    ac(c, "b", st.SUCCEEDED)
    if pause and c.get_workflow_status() == st.PAUSED:
        c.request_workflow_status(st.RESUMING)
    c.render_workflow_output()
    return c.get_workflow_status(), c.get_workflow_output(), [e["message"][:50] for e in c.errors]
plain, paused = run(False), run(True)
verdict("F23", plain != paused, "without pause: %s; with pause+resume: %s" % (plain, paused))
