from witness_lib import *
from orquesta.specs import native as specs
tasks = {
    "t1": {"action": "core.noop", "next": [{"when": "<% succeeded() %>", "do": "ty"}]},
    "t2": {"action": "core.noop", "next": [{"do": "t1"}]},
    "t3": {"action": "core.noop", "next": [{"do": "t1"}]},
}
spec = specs.WorkflowSpec({"version": 1.0, "tasks": tasks})
try:
    rep = spec.inspect()
except Exception as e:
    verdict("F19", True, "inspect() raised %s: %s instead of reporting the undefined task" % (type(e).__name__, e))
verdict("F19", not any("ty" in x["message"] for x in rep.get("semantics", [])), "report=%s" % rep)
