from witness_lib import *
from orquesta import requests as rq
c = conductor("""
version: 1.0
tasks:
  t1:
    action: core.noop
    retry:
      count: 1
      delay: 3
  t2:
    action: core.noop
""")
assert sorted(offered(c)) == [("t1", 0), ("t2", 0)]
ac(c, "t1", st.RUNNING); ac(c, "t2", st.RUNNING)
ac(c, "t1", st.FAILED)                        # t1 is retried: staged again, waiting
ac(c, "t2", st.FAILED)                        # the sibling fails the workflow
assert c.get_workflow_status() == st.FAILED
c.request_workflow_rerun(task_requests=[rq.TaskRerunRequest.new("t1", 0)])
nxt = [t for t in offered(c) if t[0] == "t1"]
verdict("F31", len(nxt) != 1, "after the rerun of t1 (which was waiting for its retry) one call offers t1 %d time(s); staged: %s" % (
    len(nxt), [(s["id"], s["route"]) for s in c.workflow_state.staged]))
