from witness_lib import *
DEF = """
version: 1.0
tasks:
  a:
    action: core.noop
    next:
      - do: j
  b:
    action: core.noop
    next:
      - when: <% failed() %>
        do: j
  j:
    join: all
    action: core.noop
"""
def run(pause):
    c = conductor(DEF)
    offered(c); ac(c, "a", st.RUNNING); ac(c, "b", st.RUNNING)
    if pause:
        c.request_workflow_status(st.PAUSING)
    ac(c, "a", st.SUCCEEDED); ac(c, "b", st.SUCCEEDED)
    if pause and c.get_workflow_status() == st.PAUSED:
        c.request_workflow_status(st.RESUMING)
    return c.get_workflow_status(), [e["message"][:40] for e in c.errors]
plain, paused = run(False), run(True)
verdict("F21", paused[0] == st.SUCCEEDED, "without pause: %s %s; with pause+resume: %s %s" % (plain + paused))
