from witness_lib import *
DEF = """
version: 1.0
tasks:
  t1:
    with:
      items: <% list(1, 2) %>
      concurrency: 1
    action: core.echo message=<% item() %>
"""
problems = []
# (a) the item is acknowledged as requested and fails before it runs
c = conductor(DEF); c.get_next_tasks()
item(c, "t1", 0, st.REQUESTED); item(c, "t1", 0, st.FAILED)
if c.get_workflow_status() != st.FAILED:
    problems.append("item requested then failed: workflow %s, t1 %s" % (c.get_workflow_status(), c.workflow_state.sequence[-1]["status"]))
# (b) cancel requested while the first item is only acknowledged as delayed
c = conductor(DEF); c.get_next_tasks()
item(c, "t1", 0, st.DELAYED); c.request_workflow_status(st.CANCELING)
item(c, "t1", 0, st.RUNNING); item(c, "t1", 0, st.SUCCEEDED, result="1")
if c.get_workflow_status() != st.CANCELED:
    problems.append("cancel while the item is delayed: workflow %s after the last report" % c.get_workflow_status())
# (c) the item goes pending (the task is paused) and is then answered
c = conductor(DEF.replace("list(1, 2)", "list(1)")); c.get_next_tasks()
item(c, "t1", 0, st.RUNNING); item(c, "t1", 0, st.PENDING)
c.request_workflow_status(st.RUNNING) if c.get_workflow_status() == st.PAUSED else None
item(c, "t1", 0, st.SUCCEEDED, result="1")
if c.workflow_state.sequence[-1]["status"] != st.SUCCEEDED:
    problems.append("pending item answered: t1 %s, workflow %s" % (c.workflow_state.sequence[-1]["status"], c.get_workflow_status()))
verdict("F29", bool(problems), "; ".join(problems) or "item reports and requests reach a with-items task that is not (yet) running")
