from witness_lib import *
c = conductor("""
version: 1.0
tasks:
  a:
    action: core.noop
""")
offered(c); ac(c, "a", st.RUNNING); ac(c, "a", st.SUCCEEDED)
assert c.get_workflow_status() == st.SUCCEEDED
try:
    c.request_workflow_rerun()
except Exception as e:
    verdict("F7", False, "rejected: %s" % type(e).__name__)
stuck = c.get_workflow_status() not in st.COMPLETED_STATUSES and not offered(c) and not c.workflow_state.has_active_tasks
verdict("F7", stuck, "status=%s offered=%s" % (c.get_workflow_status(), offered(c)))
