from witness_lib import *
# a retried attempt that is acknowledged with a starting status (delayed / scheduled / requested) before it
# reports running: nothing completed, no retry condition was evaluated - it must not be counted as
# another retry nor be offered a second time while the acknowledged action is pending
problems = []
for ack in (st.DELAYED, st.SCHEDULED, st.REQUESTED):
    c = conductor("""
version: 1.0
tasks:
  a:
    action: core.noop
    retry:
      count: 3
      delay: 1
""")
    assert offered(c) == [("a", 0)]
    ac(c, "a", st.RUNNING); ac(c, "a", st.FAILED)                 # attempt 1 fails -> retry 1
    tally1 = c.workflow_state.sequence[-1]["retry"]["tally"]
    assert offered(c) == [("a", 0)] and tally1 == 1
    ac(c, "a", ack)                                               # the provider acknowledges the re-offer
    tally2 = c.workflow_state.sequence[-1]["retry"]["tally"]
    again = offered(c)
    if tally2 != tally1 or again:
        problems.append("%s: tally %d -> %d, offered again while pending: %s" % (ack, tally1, tally2, again))
        continue
    # the acknowledged action is in flight: a pause must wait for it, and the attempt then completes normally
    c.request_workflow_status(st.PAUSED)
    if c.get_workflow_status() != st.PAUSING:
        problems.append("%s: pause while the acknowledged retry is pending gives %s" % (ack, c.get_workflow_status()))
    c.request_workflow_status(st.RUNNING)
    ac(c, "a", st.RUNNING); ac(c, "a", st.SUCCEEDED)
    if c.get_workflow_status() != st.SUCCEEDED or c.workflow_state.sequence[-1]["retry"]["tally"] != 1:
        problems.append("%s: after the retried attempt succeeded: %s" % (ack, c.get_workflow_status()))
verdict("F24", bool(problems), "; ".join(problems) or "an acknowledged retry is neither re-counted nor re-offered")
