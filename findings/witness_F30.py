from witness_lib import *
from orquesta import requests as rq
DEF = """
version: 1.0
tasks:
  a:
    action: core.noop
    next:
      - do: b
  b:
    action: core.noop
    next:
      - do: c
  c:
    action: core.noop
"""
c = conductor(DEF)
for t, s in (("a", st.SUCCEEDED), ("b", st.SUCCEEDED), ("c", st.FAILED)):
    assert (t, 0) in offered(c); ac(c, t, st.RUNNING); ac(c, t, s)
assert c.get_workflow_status() == st.FAILED
c.request_workflow_rerun(task_requests=[rq.TaskRerunRequest.new("a", 0), rq.TaskRerunRequest.new("c", 0)])
runs = []
for _ in range(6):
    nxt = offered(c)
    if not nxt:
        break
    for t, r in nxt:
        runs.append(t); ac(c, t, st.RUNNING, route=r)
    for t, r in nxt:
        ac(c, t, st.SUCCEEDED, route=r)
verdict("F30", runs != ["a", "b", "c"] or c.get_workflow_status() != st.SUCCEEDED,
        "rerun [a, c] of a -> b -> c executed %s, workflow %s" % (runs, c.get_workflow_status()))
