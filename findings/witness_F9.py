from witness_lib import *
c = conductor("""
version: 1.0
output:
  - x: <% ctx(x) %>
tasks:
  init:
    action: core.noop
    next:
      - publish: x=1
        do: a, b
  a:
    action: core.noop
    next:
      - publish: x=2
        do: j
  b:
    action: core.noop
    next:
      - do: j
  j:
    join: all
    action: core.echo message=<% ctx(x) %>
""")
offered(c); ac(c, "init", st.RUNNING); ac(c, "init", st.SUCCEEDED)
offered(c); ac(c, "a", st.RUNNING); ac(c, "b", st.RUNNING)
ac(c, "a", st.SUCCEEDED)        # a received x=1 and publishes x=2
ac(c, "b", st.SUCCEEDED)        # b merely inherited x=1 and arrives last
seen = [t for t in c.get_next_tasks() if t["id"] == "j"][0]["ctx"]["x"]
verdict("F9", seen != 2, "join sees x=%r (a superseded x=1 with x=2; b only inherited x=1 and must not override it)" % seen)
