from witness_lib import *
import copy
from orquesta import conducting
c = conductor("""
version: 1.0
input:
  - xs: [1, 2]
tasks:
  init:
    action: core.noop
    next:
      - publish: a=1
        do: t2
  r:
    action: core.noop
    next:
      - publish: b=2
        do: t2
  t2:
    with: <% ctx(xs) %>
    action: core.echo message=<% item() %>
    next:
      - do: t1
  t1:
    action: core.noop
    next:
      - when: <% false %>
        do: t2
""")
offered(c); ac(c, "init", st.RUNNING); ac(c, "r", st.RUNNING); ac(c, "init", st.SUCCEEDED)
offered(c)
item(c, "t2", 0, st.RUNNING); item(c, "t2", 1, st.RUNNING)
rec = c.workflow_state.get_task("t2", 0)
seen_before = (list(rec["ctxs"]["in"]), dict(rec["prev"]))
restored = conducting.WorkflowConductor.deserialize(c.serialize())
ac(c, "r", st.SUCCEEDED)          # a later arrival at the same task while its items are running
ac(restored, "r", st.SUCCEEDED)
rec = c.workflow_state.get_task("t2", 0)
seen_after = (list(rec["ctxs"]["in"]), dict(rec["prev"]))
rrec = restored.workflow_state.get_task("t2", 0)
diverged = (rec["ctxs"]["in"], rec["prev"]) != (rrec["ctxs"]["in"], rrec["prev"])
verdict("F2", seen_before != seen_after or diverged,
        "running record before=%s after=%s restored-twin=%s" % (seen_before, seen_after, (rrec["ctxs"]["in"], rrec["prev"])))
