from witness_lib import *
c = conductor("""
version: 1.0
tasks:
  init:
    action: core.noop
    next:
      - do: a, b, c
  a:
    action: core.noop
    next:
      - do: j
  b:
    action: core.noop
    next:
      - do: j
  c:
    action: core.noop
    next:
      - do: j
  j:
    join: 2
    action: core.noop
""")
runs = []
def drain():
    for t in c.get_next_tasks():
        runs.append(t["id"]); ac(c, t["id"], st.RUNNING, route=t["route"])
drain(); ac(c, "init", st.SUCCEEDED); drain()
ac(c, "a", st.SUCCEEDED); ac(c, "b", st.SUCCEEDED); drain()      # barrier (2 of 3) satisfied: j starts
started_once = runs.count("j")
ac(c, "c", st.SUCCEEDED); drain()                                  # third branch arrives while j is running
ac(c, "j", st.SUCCEEDED); drain()
while any(r.get("status") == st.RUNNING for r in c.workflow_state.sequence):
    for r in c.workflow_state.sequence:
        if r.get("status") == st.RUNNING:
            ac(c, r["id"], st.SUCCEEDED, route=r["route"])
    drain()
verdict("F11", runs.count("j") != 1, "join: 2 over three branches ran %d time(s) (once after the barrier was satisfied: %d); status %s" % (
    runs.count("j"), started_once, c.get_workflow_status()))
