from witness_lib import *
c = conductor("""
version: 1.0
tasks:
  a:
    action: core.noop
    retry:
      when: <% completed() %>
      count: 1
""")
offered(c); ac(c, "a", st.RUNNING)
try:
    ac(c, "a", st.CANCELED)
except RecursionError as e:
    verdict("F18", True, "canceled task with a retry condition that holds: unbounded recursion in update_task_state (RecursionError)")
except Exception as e:
    verdict("F18", True, "%s: %s" % (type(e).__name__, e))
bad = c.get_workflow_status() != st.CANCELED or bool(c.errors)
verdict("F18", bad, "status=%s task=%s errors=%s" % (c.get_workflow_status(), c.workflow_state.sequence[-1]["status"], [x["message"][:60] for x in c.errors]))
