from witness_lib import *
c = conductor("""
version: 1.0
tasks:
  a:
    action: core.http
    retry:
      when: <% result() = 503 %>
      count: 1
    next:
      - when: <% failed() %>
        do: cleanup
  cleanup:
    action: core.noop
""")
offered(c); ac(c, "a", st.RUNNING)
ac(c, "a", st.FAILED, result=500)          # no retry (condition false): transitions are decided, cleanup staged
rec = c.workflow_state.get_task("a", 0)
decided = dict(rec["next"]); status1 = rec["status"]
ac(c, "a", st.FAILED, result=503)          # a late / duplicate report for the finished execution
rec = c.workflow_state.get_task("a", 0)
verdict("F22", rec["status"] != status1 or rec["retry"]["tally"] != 0,
        "finished record (decisions %s) after a late report: status %s -> %s, tally %s, offered %s" % (
            decided, status1, rec["status"], rec["retry"]["tally"], offered(c)))
