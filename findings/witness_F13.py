from witness_lib import *
c = conductor("""
version: 1.0
input:
  - n
tasks:
  a:
    action: core.noop
    retry:
      count: <% ctx(n).missing %>
      delay: 1
""", inputs={"n": {"x": 1}})
offered(c)
try:
    ac(c, "a", st.RUNNING)
except Exception as e:
    verdict("F13", True, "retry count error escaped update_task_state: %s: %s" % (type(e).__name__, e))
verdict("F13", False, "status=%s errors=%s" % (c.get_workflow_status(), c.errors))
