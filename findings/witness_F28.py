from witness_lib import *
DEF = """
version: 1.0
tasks:
  t1:
    action: core.noop
    next:
      - do: t2
  t2:
    action: core.noop
"""
out = []
for req in (st.CANCELING, st.CANCELED):
    c = conductor(DEF)
    offered(c); ac(c, "t1", st.RUNNING)
    c.request_workflow_status(st.PAUSING); ac(c, "t1", st.SUCCEEDED)
    assert c.get_workflow_status() == st.PAUSED
    try:
        c.request_workflow_status(req)
        out.append((req, c.get_workflow_status()))
    except Exception as e:
        out.append((req, "rejected: " + type(e).__name__))
verdict("F28", out != [(st.CANCELING, st.CANCELED), (st.CANCELED, st.CANCELED)], "cancel requests on a paused workflow: %s" % out)
