from witness_lib import *
# a with-items task (3 items, concurrency 1) offered before a cancel request reports its first item
# only after the request: once that item and the sibling have reported nothing is in flight
c = conductor("""
version: 1.0
tasks:
  a:
    action: core.noop
    next:
      - do: w, p
  w:
    with:
      items: <% list(1, 2, 3) %>
      concurrency: 1
    action: core.echo message=<% item() %>
  p:
    action: core.noop
""")
offered(c); ac(c, "a", st.RUNNING); ac(c, "a", st.SUCCEEDED)
assert sorted(offered(c)) == [("p", 0), ("w", 0)]
ac(c, "p", st.RUNNING)
c.request_workflow_status(st.CANCELING)
item(c, "w", 0, st.RUNNING)
ac(c, "p", st.SUCCEEDED)
item(c, "w", 0, st.SUCCEEDED, result="1")
verdict("F27", c.get_workflow_status() != st.CANCELED or bool(offered(c)),
        "after the last in-flight action reported: workflow %s, w %s, offered %s" % (
            c.get_workflow_status(), [r["status"] for r in c.workflow_state.sequence if r["id"] == "w"], offered(c)))
