from witness_lib import *
import json
from orquesta import exceptions as exc
c = conductor("""
version: 1.0
input:
  - xs: [1, 2, 3]
tasks:
  w:
    with: <% ctx(xs) %>
    action: core.echo message=<% item() %>
  b:
    action: core.noop
""")
offered(c)
item(c, "w", 0, st.RUNNING); item(c, "w", 1, st.RUNNING)
ac(c, "b", st.RUNNING); ac(c, "b", st.FAILED)      # fail-fast: the workflow is failed, w still runs
assert c.get_workflow_status() == st.FAILED
before = json.dumps(c.serialize()["state"], sort_keys=True)
rejected = False
try:
    c.request_workflow_status(st.CANCELED)
except exc.InvalidWorkflowStatusTransition:
    rejected = True
after = json.dumps(c.serialize()["state"], sort_keys=True)
verdict("F8", rejected and before != after,
        "rejected=%s state changed=%s (task w: %s)" % (rejected, before != after, c.workflow_state.get_task("w", 0)["status"]))
