"""History-level witnesses against the public API (used to confirm findings natively)."""
from orquesta import conducting, events, statuses as st
from orquesta.specs import native as specs


def conductor(defn, inputs=None, start=True):
    spec = specs.WorkflowSpec(defn)
    errs = spec.inspect()
    assert not errs, errs
    c = conducting.WorkflowConductor(spec, inputs=inputs)
    if start:
        c.request_workflow_status(st.RUNNING)
    return c


def ac(c, task_id, status, route=0, result=None):
    c.update_task_state(task_id, route, events.ActionExecutionEvent(status, result=result))


def item(c, task_id, item_id, status, route=0, result=None, accumulated=None):
    c.update_task_state(task_id, route, events.TaskItemActionExecutionEvent(
        item_id, status, result=result, accumulated_result=accumulated))


def offered(c):
    return [(t["id"], t["route"]) for t in c.get_next_tasks()]


def verdict(name, defect_present, detail):
    print("%s: %s  %s" % (name, "DEFECT-PRESENT" if defect_present else "holds", detail))
    raise SystemExit(1 if defect_present else 0)
