# witness written by a bug-hunt sub-agent (given only the property text); exit 1 = defect present
#!/usr/bin/env python
# C15 / finding 1: a reference to an unassigned context variable is not reported when it is nested
# inside another ctx reference, e.g. <% ctx(hosts)[ctx(idx)] %> or <% ctx(a).concat(ctx(b)) %>.
import os
import sys

ROOT = os.environ.get("VERIF_REPO", "/repo")
sys.path.insert(0, ROOT)

import logging

logging.disable(logging.CRITICAL)

import orquesta
from orquesta import conducting, events, statuses
from orquesta.specs import native as specs

print("orquesta from", orquesta.__file__)

WF = """
version: 1.0
input:
  - hosts: [alpha, beta, gamma]
tasks:
  pick:
    action: core.echo
    input:
      message: %(expr)s
    next:
      - when: <%% succeeded() %%>
        do: done
  done:
    action: core.noop
"""

# (label, expression, is the reference to the unassigned variable expected to be reported)
CASES = [
    ("control: alone (yaql)", "<% ctx(idx) %>"),
    ("control: spaced index (yaql)", "<% ctx(hosts)[ ctx(idx) ] %>"),
    ("nested index (yaql)", "<% ctx(hosts)[ctx(idx)] %>"),
    ("nested index, dot form (yaql)", "<% ctx().hosts[ctx().idx] %>"),
    ("nested argument (yaql)", "<% ctx(hosts).indexOf(ctx(idx)) %>"),
    ("nested index (jinja)", "\"{{ ctx('hosts')[ctx('idx')] }}\""),
]

violations = []

for label, expr in CASES:
    spec = specs.WorkflowSpec(WF % {"expr": expr})
    report = spec.inspect()
    ctx_msgs = [e["message"] for e in report.get("context", [])]
    reported = any('"idx"' in m for m in ctx_msgs)
    print("\n[%s] message: %s" % (label, expr))
    print("  inspect() ->", report if report else "{}  (accepted)")

    if reported:
        print("  the unassigned variable idx is reported")
        continue

    print('  the reference to "idx", which nothing assigns, is NOT reported')

    if label.startswith("control"):
        continue

    # Show what the accepted definition does when it is conducted.
    conductor = conducting.WorkflowConductor(spec)
    conductor.request_workflow_status(statuses.RUNNING)
    tasks = conductor.get_next_tasks()
    print("  get_next_tasks() ->", [t["id"] for t in tasks])
    print("  workflow status  ->", conductor.get_workflow_status())
    print("  errors           ->", [e["message"] for e in conductor.errors])
    violations.append(label)

print()

if violations:
    print("VIOLATION: unassigned variable silently accepted by inspection in:", violations)
    sys.exit(1)

print("no violation observed")
sys.exit(0)
