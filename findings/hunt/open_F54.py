# witness written by a bug-hunt sub-agent (given only the property text); exit 1 = defect present
"""C06 finding 1: the workflow output takes an OLDER value of a variable from a terminal task
that merely inherited it, although a newer value (published by a task that had received the
older one) reached another terminal task.  No join involved.

    r --(publish x=old)--> a --(publish x=new)--> a2            (terminal)
     \\--------------------> b1 ----------------> b2            (terminal, never touches x)

Run: cd /repo && /venv/bin/python _out/finding1.py
"""
import os
import sys

sys.path.insert(0, os.environ.get("VERIF_REPO", "/repo"))

import orquesta  # noqa: E402
from orquesta import conducting, events, statuses  # noqa: E402
from orquesta.specs import native as specs  # noqa: E402

print("orquesta from", orquesta.__file__)

WF = """
version: 1.0
output:
  - x: <% ctx().x %>
tasks:
  r:
    action: core.noop
    next:
      - publish:
          - x: old
        do: a, b1
  a:
    action: core.noop
    next:
      - publish:
          - x: new
        do: a2
  a2:
    action: core.noop
  b1:
    action: core.noop
    next:
      - do: b2
  b2:
    action: core.noop
"""


def visible(task):
    return {k: v for k, v in task["ctx"].items() if not k.startswith("__")}


def offer_and_ack(c):
    tasks = c.get_next_tasks()
    for t in tasks:
        print("  offered %-3s route %s ctx %s" % (t["id"], t["route"], visible(t)))
        c.update_task_state(t["id"], t["route"], events.ActionExecutionEvent(statuses.RUNNING))
    return tasks


def complete(c, task_id, route=0):
    c.update_task_state(task_id, route, events.ActionExecutionEvent(statuses.SUCCEEDED))
    print("  %s succeeded -> workflow %s" % (task_id, c.get_workflow_status()))


def run(order):
    spec = specs.WorkflowSpec(WF)
    assert not spec.inspect(), spec.inspect()
    c = conducting.WorkflowConductor(spec)
    c.request_workflow_status(statuses.RUNNING)
    offer_and_ack(c)          # r
    complete(c, "r")
    offer_and_ack(c)          # a, b1
    for task_id in order:     # completion order of a and b1 decides who starts first: a2 or b2
        complete(c, task_id)
        offer_and_ack(c)
    complete(c, "a2")
    complete(c, "b2")
    c.render_workflow_output()
    terms = [(t["id"], t["ctxs"]["in"]) for _, t in c.workflow_state.get_terminal_tasks()]
    print("  contexts       :", c.workflow_state.contexts)
    print("  terminal tasks :", terms)
    print("  status %s output %s" % (c.get_workflow_status(), c.get_workflow_output()))
    return c.get_workflow_output()


print("History A: a completes before b1 (so a2 is started before b2)")
out_a = run(["a", "b1"])
print("History B: b1 completes before a (so b2 is started before a2)")
out_b = run(["b1", "a"])

# 'new' was published by task a, which had itself received 'old'; it supersedes 'old' for good.
# Branch b1->b2 merely inherited 'old'.  The output has to be x=new whatever the order.
bad = [name for name, out in (("A", out_a), ("B", out_b)) if out != {"x": "new"}]

if bad:
    print("VIOLATION: output x should be 'new' in every order; wrong in history %s" % ", ".join(bad))
    sys.exit(1)

print("no violation observed")
sys.exit(0)
