# witness written by a bug-hunt sub-agent (given only the property text); exit 1 = defect present
#!/usr/bin/env python
"""C02 finding 1: workflow stuck in canceling / pausing with nothing in flight.

A with-items task with `concurrency` that is between two batches (its running items are done,
the next ones are not offered yet) is an "active" task for the workflow state machine. When the
workflow turns canceling (a sibling action reports canceled) or pausing (a sibling action reports
pending) because of a TASK event, nobody tells the with-items task. Its in-flight item completes,
the task stays "running", get_next_tasks() offers nothing (workflow is not running), and the
workflow reports canceling / pausing forever although no action is in flight.
"""
import os
import sys

ROOT = os.environ.get("VERIF_REPO", "/repo")
sys.path.insert(0, ROOT)

import orquesta  # noqa: E402
from orquesta import conducting, events, statuses  # noqa: E402
from orquesta.specs import native as specs  # noqa: E402

print("orquesta from", orquesta.__file__)

WF = """
version: 1.0
tasks:
  t:
    with:
      items: <% list(1, 2, 3) %>
      concurrency: 1
    action: core.echo message=<% item() %>
  b:
    action: core.noop
"""


def scenario(kind, gap_first=False):
    print("\n--- variant: sibling action reports %s %s the item of t completes ---" % (
        kind, "AFTER" if gap_first else "BEFORE"))
    spec = specs.WorkflowSpec(WF)
    assert not spec.inspect()
    c = conducting.WorkflowConductor(spec)
    c.request_workflow_status(statuses.RUNNING)

    in_flight = set()

    offered = c.get_next_tasks()
    print("offered:", [(t["id"], [a.get("item_id") for a in t["actions"]]) for t in offered])
    # acknowledge everything that was offered, immediately
    c.update_task_state("b", 0, events.ActionExecutionEvent(statuses.RUNNING))
    in_flight.add(("b", None))
    c.update_task_state("t", 0, events.TaskItemActionExecutionEvent(0, statuses.RUNNING))
    in_flight.add(("t", 0))
    print("acked b and t[0] running      -> workflow", c.get_workflow_status())

    def item_done():
        c.update_task_state(
            "t", 0,
            events.TaskItemActionExecutionEvent(
                0, statuses.SUCCEEDED, result=1, accumulated_result=[1]),
        )
        in_flight.discard(("t", 0))
        print("t[0] reported succeeded       -> workflow %s, task t %s (in flight: %s)" % (
            c.get_workflow_status(), c.get_task_state_entry("t", 0)["status"],
            sorted(in_flight, key=str)))

    if gap_first:
        item_done()

    if kind == "canceled":
        # the action of b is canceled (one completion status)
        c.update_task_state("b", 0, events.ActionExecutionEvent(statuses.CANCELED))
        in_flight.discard(("b", None))
        expected_transient, expected_final = statuses.CANCELING, statuses.CANCELED
    else:
        # the action of b goes pending (e.g. an inquiry); pending actions are not in flight
        c.update_task_state("b", 0, events.ActionExecutionEvent(statuses.PENDING))
        in_flight.discard(("b", None))
        expected_transient, expected_final = statuses.PAUSING, statuses.PAUSED

    print("b reported %-9s          -> workflow %s (in flight: %s)" % (
        kind, c.get_workflow_status(), sorted(in_flight, key=str)))

    # the only in-flight action completes
    if not gap_first:
        item_done()

    # nothing more is ever offered
    for i in range(3):
        nxt = c.get_next_tasks()
        print("get_next_tasks()              -> %s, workflow %s" % (nxt, c.get_workflow_status()))

    if kind == "pending":
        # the pending action is answered and succeeds: still nothing moves
        c.update_task_state("b", 0, events.ActionExecutionEvent(statuses.SUCCEEDED))
        print("b reported succeeded          -> workflow %s, get_next_tasks() -> %s" % (
            c.get_workflow_status(), c.get_next_tasks()))

    # survives a round trip
    c = conducting.WorkflowConductor.deserialize(c.serialize())
    status = c.get_workflow_status()
    print("after serialize/deserialize   -> workflow", status)

    violated = status in (statuses.PAUSING, statuses.CANCELING) and not in_flight
    print("expected workflow %s; observed %s with %d actions in flight => %s" % (
        expected_final, status, len(in_flight), "VIOLATION" if violated else "ok"))
    return violated


if __name__ == "__main__":
    results = [
        scenario("canceled"),
        scenario("pending"),
        scenario("canceled", gap_first=True),
        scenario("pending", gap_first=True),
    ]
    sys.exit(1 if any(results) else 0)
