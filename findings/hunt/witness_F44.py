# witness written by a bug-hunt sub-agent (given only the property text); exit 1 = defect present
"""C14 finding 3 (minor): a graph restored from its own serialisation answers
get_prev_transitions() in a different order than the composed graph. The method "sorts" the inbound
edges by element [1], which for inbound edges is the (constant) target, so the order is whatever
networkx' predecessor dict holds: edge insertion order in the composed graph, node order in the
restored one. serialize() itself is stable (it only walks successors).

Clause: "the graph survives serialisation and restoration unchanged".
"""
import json
import os
import sys

sys.path.insert(0, os.environ.get("VERIF_REPO", "/repo"))

import orquesta  # noqa: E402
from orquesta import conducting, graphing, statuses  # noqa: E402
from orquesta.composers import native as composers  # noqa: E402
from orquesta.specs import native as specs  # noqa: E402

print("orquesta:", orquesta.__file__)

WF = """
version: 1.0
tasks:
  a:
    action: core.noop
    next:
      - do: c
  b:
    action: core.noop
    next:
      - when: <% succeeded() %>
        do: d
  c:
    action: core.noop
    next:
      - when: <% failed() %>
        do: d
  d:
    join: all
    action: core.noop
"""

spec = specs.WorkflowSpec(WF)
print("inspect() ->", spec.inspect())
composed = composers.WorkflowComposer.compose(spec)
data = json.loads(json.dumps(composed.serialize()))
restored = graphing.WorkflowGraph.deserialize(data)
print("node order:", [n["id"] for n in data["nodes"]])
print("serialize() identical after the round trip:", restored.serialize() == composed.serialize())

before = composed.get_prev_transitions("d")
after = restored.get_prev_transitions("d")
print("composed  get_prev_transitions('d'):", before)
print("restored  get_prev_transitions('d'):", after)

# The same through the conductor's own persistence.
conductor = conducting.WorkflowConductor(spec)
conductor.request_workflow_status(statuses.RUNNING)
conductor2 = conducting.WorkflowConductor.deserialize(json.loads(json.dumps(conductor.serialize())))
c_before = conductor.graph.get_prev_transitions("d")
c_after = conductor2.graph.get_prev_transitions("d")
print("conductor get_prev_transitions('d'):", [e[0] for e in c_before])
print("restored conductor                 :", [e[0] for e in c_after])

same_set = sorted(before, key=lambda e: (e[0], e[2])) == sorted(after, key=lambda e: (e[0], e[2]))
print("same edges as a set:", same_set)

if before != after or c_before != c_after:
    print("VIOLATION: the restored graph lists the inbound transitions of 'd' in another order")
    sys.exit(1)
sys.exit(0)
