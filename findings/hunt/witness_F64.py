# witness written by a bug-hunt sub-agent (given only the property text); exit 1 = defect present
"""C07 finding 1: an unreachable-join error is logged for a join that can still be (and is) satisfied.

The workflow fails because of an unrelated task while one inbound branch of the join has
completed and the other is still running. The conductor logs UnreachableJoinError for the join
at that moment. The running branch then completes, the join becomes ready, a default rerun runs
it, the workflow succeeds - and conductor.errors still says the join is unreachable.
"""
import os
import sys

ROOT = os.environ.get("VERIF_REPO", "/repo")
sys.path.insert(0, ROOT)

import orquesta  # noqa: E402
from orquesta import conducting, events, statuses  # noqa: E402
from orquesta.specs import native as specs  # noqa: E402

print(orquesta.__file__)

WF = """
version: 1.0
tasks:
  a:
    action: core.noop
    next:
      - when: <% succeeded() %>
        do: j
  b:
    action: core.noop
    next:
      - when: <% succeeded() %>
        do: j
  c:
    action: core.noop
  j:
    join: all
    action: core.noop
"""

spec = specs.WorkflowSpec(WF)
assert not spec.inspect(), spec.inspect()
c = conducting.WorkflowConductor(spec)
c.request_workflow_status(statuses.RUNNING)


def offer():
    tasks = [(t["id"], t["route"]) for t in c.get_next_tasks()]
    print("get_next_tasks ->", tasks)
    for tid, route in tasks:
        c.update_task_state(tid, route, events.ActionExecutionEvent(statuses.RUNNING))
        print("  ack %s running" % tid)
    return tasks


def report(tid, status):
    c.update_task_state(tid, 0, events.ActionExecutionEvent(status))
    print("report %s %s -> workflow %s" % (tid, status, c.get_workflow_status()))


def unreachable():
    return [e for e in c.errors if "UnreachableJoinError" in e["message"]]


offer()  # a, b, c
report("a", statuses.SUCCEEDED)
offer()  # nothing, the join waits for b
report("c", statuses.FAILED)  # unrelated failure, b is still running

b_status = c.get_task_state_entry("b", 0)["status"]
early = unreachable()
print("task b is", b_status, "- errors:", c.errors)

report("b", statuses.SUCCEEDED)
print("staged:", c.workflow_state.get_staged_tasks(filtered=False))

c.request_workflow_rerun()
print("rerun -> workflow", c.get_workflow_status())
ran = offer()  # c and j
for tid, _ in ran:
    report(tid, statuses.SUCCEEDED)
offer()

final = c.get_workflow_status()
late = unreachable()
j_ran = c.get_task_state_entry("j", 0)
print("final workflow status:", final)
print("join record:", j_ran and j_ran.get("status"))
print("errors:", c.errors)

violated = False
if early and b_status == statuses.RUNNING:
    print("VIOLATION: UnreachableJoinError logged while inbound branch b was still running")
    violated = True
if late and final == statuses.SUCCEEDED and j_ran and j_ran.get("status") == statuses.SUCCEEDED:
    print("VIOLATION: workflow succeeded, join ran once, errors still call it unreachable")
    violated = True

sys.exit(1 if violated else 0)
