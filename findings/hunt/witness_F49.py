# witness written by a bug-hunt sub-agent (given only the property text); exit 1 = defect present
#!/usr/bin/env python
"""C02 finding 4: the workflow reports paused while an action is in flight.

Two tasks are offered by one get_next_tasks() call. The provider acknowledges them one after the
other, as it must. The first is acknowledged `pending` (e.g. an inquiry): no other task has a
record yet, so the workflow turns paused at once. The second is then acknowledged `requested`,
`scheduled` or `delayed` (e.g. it has a `delay:`): the paused row of the workflow table has no
entry for these task events, so the workflow keeps reporting paused while that action is in
flight. As long as this lasts a cancel request raises InvalidWorkflowStatusTransition.
(Acknowledged in the other order the same two reports give pausing.)
"""
import os
import sys

ROOT = os.environ.get("VERIF_REPO", "/repo")
sys.path.insert(0, ROOT)

import orquesta  # noqa: E402
from orquesta import conducting, events, statuses  # noqa: E402
from orquesta.specs import native as specs  # noqa: E402

print("orquesta from", orquesta.__file__)

WF = """
version: 1.0
tasks:
  a:
    action: core.ask
  b:
    action: core.noop
    delay: 60
"""


def scenario(ack_b):
    print("\n--- a acknowledged pending, then b acknowledged %s ---" % ack_b)
    spec = specs.WorkflowSpec(WF)
    assert not spec.inspect()
    c = conducting.WorkflowConductor(spec)
    c.request_workflow_status(statuses.RUNNING)
    in_flight = set()

    print("offered:", [(t["id"], "delay=%s" % t.get("delay")) for t in c.get_next_tasks()])
    c.update_task_state("a", 0, events.ActionExecutionEvent(statuses.PENDING))
    print("a acknowledged pending     -> workflow %s" % c.get_workflow_status())
    c.update_task_state("b", 0, events.ActionExecutionEvent(ack_b))
    in_flight.add("b")
    c = conducting.WorkflowConductor.deserialize(c.serialize())
    status = c.get_workflow_status()
    print("b acknowledged %-10s  -> workflow %s, records %s, in flight %s" % (
        ack_b, status, [(t["id"], t["status"]) for t in c.workflow_state.sequence],
        sorted(in_flight)))
    violated = status in (statuses.PAUSED, statuses.CANCELED) and bool(in_flight)

    for req in (statuses.CANCELING,):
        try:
            c2 = conducting.WorkflowConductor.deserialize(c.serialize())
            c2.request_workflow_status(req)
            print("request %-10s         -> workflow %s" % (req, c2.get_workflow_status()))
        except Exception as e:
            print("request %-10s         -> %s: %s" % (req, type(e).__name__, e))

    print("expected pausing or running; observed %s with %d action in flight => %s" % (
        status, len(in_flight), "VIOLATION" if violated else "ok"))

    c.update_task_state("b", 0, events.ActionExecutionEvent(statuses.RUNNING))
    print("(b reports running         -> workflow %s)" % c.get_workflow_status())
    return violated


def control():
    print("\n--- control: b acknowledged delayed first, then a pending ---")
    spec = specs.WorkflowSpec(WF)
    c = conducting.WorkflowConductor(spec)
    c.request_workflow_status(statuses.RUNNING)
    c.get_next_tasks()
    c.update_task_state("b", 0, events.ActionExecutionEvent(statuses.DELAYED))
    c.update_task_state("a", 0, events.ActionExecutionEvent(statuses.PENDING))
    print("workflow %s with b in flight" % c.get_workflow_status())
    assert c.get_workflow_status() == statuses.PAUSING


if __name__ == "__main__":
    results = [scenario(s) for s in (statuses.DELAYED, statuses.REQUESTED, statuses.SCHEDULED)]
    control()
    sys.exit(1 if any(results) else 0)
