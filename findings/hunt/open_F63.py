# witness written by a bug-hunt sub-agent (given only the property text); exit 1 = defect present
#!/usr/bin/env python
"""C20 finding 4: inline list values ([...]) do not mean what the long form means.

The parser has a dedicated pattern for values in brackets and name=[80, 443] does become
a list. But (a) a list holding strings stays a string, and (b) the pattern is greedy up to the
last "]" of the whole line, so a second list or a YAQL index later on the line is swallowed
together with every parameter in between.
"""
import os
import sys

ROOT = os.environ.get("VERIF_REPO", "/repo")
sys.path.insert(0, ROOT)

import orquesta  # noqa: E402
from orquesta import conducting, events, statuses  # noqa: E402
from orquesta.specs import native as specs  # noqa: E402

print("orquesta loaded from", orquesta.__file__)

# Control: a bracketed list of numbers is understood and equals its long form.
SHORT_0 = """
version: 1.0
tasks:
  task1:
    action: core.echo ports=[80, 443]
    next:
      - publish: ports=[80, 443]
output:
  - ports: <% ctx().ports %>
"""
LONG_0 = """
version: 1.0
tasks:
  task1:
    action: core.echo
    input:
      ports: [80, 443]
    next:
      - publish:
          - ports: [80, 443]
        do: continue
output:
  - ports: <% ctx().ports %>
"""

# (a) the same with strings in the list: stays a string.
SHORT_A = SHORT_0.replace("ports=[80, 443]", 'hosts=["web1", "web2"]').replace("ctx().ports", "ctx().hosts").replace("- ports", "- hosts")
LONG_A = LONG_0.replace("ports: [80, 443]", 'hosts: ["web1", "web2"]').replace("ctx().ports", "ctx().hosts").replace("- ports: <", "- hosts: <")

# (b) a list followed by any later "]" on the line (second list, YAQL index): one fused string,
# and the parameters in between vanish.
SHORT_B = """
version: 1.0
input:
  - cmds
tasks:
  task1:
    action: core.remote ports=[80, 443] timeout=30 cmd=<% ctx().cmds[0] %>
"""
LONG_B = """
version: 1.0
input:
  - cmds
tasks:
  task1:
    action: core.remote
    input:
      ports: [80, 443]
      timeout: 30
      cmd: <% ctx().cmds[0] %>
"""
def conduct(label, definition):
    print("--- %s" % label)
    spec = specs.WorkflowSpec(definition)
    obs = {"inspect": spec.inspect()}
    print("inspect():", obs["inspect"])
    conductor = conducting.WorkflowConductor(spec, inputs=INPUTS)
    obs["graph"] = conductor.graph.serialize()
    conductor.request_workflow_status(statuses.RUNNING)
    obs["offered"] = []

    while True:
        tasks = conductor.get_next_tasks()
        if not tasks:
            break
        for t in tasks:
            print("get_next_tasks() offers %s: %s" % (t["id"], t["actions"]))
            obs["offered"].append((t["id"], t["route"], t["actions"]))
            ev = events.ActionExecutionEvent(statuses.RUNNING)
            conductor.update_task_state(t["id"], t["route"], ev)
        for t in tasks:
            ev = events.ActionExecutionEvent(statuses.SUCCEEDED, result="done")
            conductor.update_task_state(t["id"], t["route"], ev)

    conductor.render_workflow_output()
    obs["status"] = conductor.get_workflow_status()
    obs["output"] = conductor.get_workflow_output()
    print("status:", obs["status"], "output:", obs["output"], "errors:", conductor.errors)
    return obs


INPUTS = {"cmds": ["uptime", "date"]}
violated = False


def compare(title, short, long_, expect_same=False):
    global violated
    print("===== %s" % title)
    a = conduct("shorthand", short)
    b = conduct("long form", long_)
    for key in ("inspect", "graph", "offered", "status", "output"):
        same = a[key] == b[key]
        print("%-8s %s" % (key, "same" if same else "DIFFERENT"))
        if not same:
            print("   shorthand:", a[key])
            print("   long form:", b[key])
            violated = True


compare("control: list of numbers", SHORT_0, LONG_0)
compare("(a) list of strings", SHORT_A, LONG_A)
compare("(b) list followed by a later ']' on the line", SHORT_B, LONG_B)

print("VIOLATION" if violated else "no violation")
sys.exit(1 if violated else 0)
