# witness written by a bug-hunt sub-agent (given only the property text); exit 1 = defect present
"""C14 finding 1: a `do: retry` command silently REPLACES the retry policy the task declares
(and an earlier `do: retry` command of the same task); inspect() accepts the definition.

Clause: "barrier and retry attributes exactly where join and retry are declared" /
        "(a retry command becoming a retry policy on the task instead)".
"""
import json
import os
import sys

sys.path.insert(0, os.environ.get("VERIF_REPO", "/repo"))

import orquesta  # noqa: E402
from orquesta import conducting, events, statuses  # noqa: E402
from orquesta.composers import native as composers  # noqa: E402
from orquesta.specs import native as specs  # noqa: E402

print("orquesta:", orquesta.__file__)

# Case A: the documented retry model (retry a failure up to 5 times, 2s apart) on the task, plus the
# documented retry command for "the call worked but the answer is not a 200".
WF_A = """
version: 1.0
tasks:
  task1:
    action: core.http url=http://example.com
    retry:
      when: <% failed() %>
      count: 5
      delay: 2
    next:
      - when: <% succeeded() and result().status_code != 200 %>
        do: retry
      - when: <% succeeded() and result().status_code = 200 %>
        do: task2
  task2:
    action: core.noop
"""

# Case B: two retry commands on one task.
WF_B = """
version: 1.0
tasks:
  task1:
    action: core.http url=http://example.com
    next:
      - when: <% failed() %>
        do: retry
      - when: <% succeeded() and result().status_code != 200 %>
        do: retry
      - when: <% succeeded() and result().status_code = 200 %>
        do: task2
  task2:
    action: core.noop
"""

# Control: only the retry model is declared.
WF_C = """
version: 1.0
tasks:
  task1:
    action: core.http url=http://example.com
    retry:
      when: <% failed() %>
      count: 5
      delay: 2
    next:
      - when: <% succeeded() and result().status_code = 200 %>
        do: task2
  task2:
    action: core.noop
"""


def run(label, definition, declared_when):
    print("\n=== %s ===" % label)
    spec = specs.WorkflowSpec(definition)
    errors = spec.inspect()
    print("inspect() ->", errors)
    graph = composers.WorkflowComposer.compose(spec)
    retry_attr = graph.get_task("task1").get("retry")
    print("graph retry attribute of task1:", json.dumps(retry_attr))
    kept = retry_attr is not None and retry_attr.get("when") == declared_when
    print('policy "retry when %s" present in the graph: %s' % (declared_when, kept))

    conductor = conducting.WorkflowConductor(spec)
    conductor.request_workflow_status(statuses.RUNNING)
    offered = conductor.get_next_tasks()
    print("offered:", [(t["id"], t["route"]) for t in offered])
    conductor.update_task_state("task1", 0, events.ActionExecutionEvent(statuses.RUNNING))
    conductor.update_task_state(
        "task1", 0, events.ActionExecutionEvent(statuses.FAILED, result={"status_code": 500})
    )
    print("task1 reported FAILED")
    status = conductor.get_workflow_status()
    again = [(t["id"], t["route"]) for t in conductor.get_next_tasks()]
    print("workflow status:", status, "| offered next:", again)
    retried = ("task1", 0) in again
    print("task1 retried after the failure:", retried)
    return (not errors), kept, retried


acc_c, kept_c, retried_c = run("control: retry model only", WF_C, "<% failed() %>")
acc_a, kept_a, retried_a = run("A: retry model + retry command", WF_A, "<% failed() %>")
acc_b, kept_b, retried_b = run("B: two retry commands", WF_B, "<% failed() %>")

print("\nsummary")
print("control accepted=%s policy kept=%s retried=%s" % (acc_c, kept_c, retried_c))
print("case A  accepted=%s policy kept=%s retried=%s" % (acc_a, kept_a, retried_a))
print("case B  accepted=%s policy kept=%s retried=%s" % (acc_b, kept_b, retried_b))

violated = False
if acc_c and kept_c and retried_c:
    if acc_a and (not kept_a or not retried_a):
        print("VIOLATION (A): accepted definition, but the declared retry policy is not in the graph")
        violated = True
    if acc_b and (not kept_b or not retried_b):
        print("VIOLATION (B): accepted definition, but the first retry command is not in the graph")
        violated = True
else:
    print("control did not behave as expected; not judging")

sys.exit(1 if violated else 0)
