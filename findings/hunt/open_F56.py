# witness written by a bug-hunt sub-agent (given only the property text); exit 1 = defect present
"""C18 finding 1: a branch that arrives while a task is waiting to be retried changes the context
(and the predecessors) the retried attempt of the already started execution is given.

Exit 1 if the violation is observed, 0 if not.
"""
import json
import os
import sys

sys.path.insert(0, os.environ.get("VERIF_REPO", "/repo"))

import orquesta  # noqa: E402
from orquesta import conducting, events, statuses  # noqa: E402
from orquesta.specs import native as specs  # noqa: E402

print("orquesta from", orquesta.__file__)

WF = """
version: 1.0
vars:
  - who: nobody
tasks:
  init:
    action: core.noop
    next:
      - do: fast, slow
  fast:
    action: core.noop
    next:
      - publish: who="fast"
        do: notify
  slow:
    action: core.noop
    next:
      - publish: who="slow"
        do: notify
  notify:
    join: 1
    action: core.echo message=<% ctx().who %>
    retry:
      count: 1
    next:
      - publish: notified=<% ctx().who %>
        do: done
  done:
    action: core.noop
"""

spec = specs.WorkflowSpec(WF)
assert not spec.inspect(), spec.inspect()
c = conducting.WorkflowConductor(spec)


def ac(status, result=None):
    return events.ActionExecutionEvent(status, result=result)


def strip(ctx):
    return {k: v for k, v in ctx.items() if not k.startswith("__")}


def offer():
    tasks = c.get_next_tasks()
    print("get_next_tasks ->", [(t["id"], t["route"], t["actions"][0]["input"] if t["actions"] else None) for t in tasks])
    return tasks


def record(task_id, route=0):
    idx = c.workflow_state.tasks["%s__r%s" % (task_id, route)]
    return idx, json.loads(json.dumps(c.serialize()["state"]["sequence"][idx]))


c.request_workflow_status(statuses.RUNNING)
for t in offer():
    c.update_task_state(t["id"], t["route"], ac(statuses.RUNNING))
c.update_task_state("init", 0, ac(statuses.SUCCEEDED))
for t in offer():
    c.update_task_state(t["id"], t["route"], ac(statuses.RUNNING))

print("fast succeeds (slow is still running)")
c.update_task_state("fast", 0, ac(statuses.SUCCEEDED))

(t,) = offer()
assert t["id"] == "notify"
first_input = t["actions"][0]["input"]
first_ctx = strip(t["ctx"])
c.update_task_state("notify", 0, ac(statuses.RUNNING))
idx1, rec_started = record("notify")
print("notify started: record #%d ctxs.in=%s prev=%s, action input=%s" % (idx1, rec_started["ctxs"]["in"], rec_started["prev"], first_input))

print("notify fails -> it is reopened for a retry (no transition decided)")
c.update_task_state("notify", 0, ac(statuses.FAILED, result="boom"))
_, rec_retrying = record("notify")
print("   record status=%s next=%s" % (rec_retrying["status"], rec_retrying["next"]))

print("slow succeeds while notify is waiting to be retried")
c.update_task_state("slow", 0, ac(statuses.SUCCEEDED))

tasks = offer()
retry = [t for t in tasks if t["id"] == "notify"]
assert len(retry) == 1, tasks
t = retry[0]
second_input = t["actions"][0]["input"]
second_ctx = strip(t["ctx"])
c.update_task_state("notify", 0, ac(statuses.RUNNING))
idx2, rec_again = record("notify")
rec_ctx = strip(c.get_task_context(rec_again["ctxs"]["in"]))
print("retried attempt: record #%d (same record: %s) ctxs.in=%s prev=%s" % (idx2, idx1 == idx2, rec_again["ctxs"]["in"], rec_again["prev"]))
print("   context of the record      : %s" % rec_ctx)
print("   context given to attempt 1 : %s  input=%s" % (first_ctx, first_input))
print("   context given to attempt 2 : %s  input=%s" % (second_ctx, second_input))

c.update_task_state("notify", 0, ac(statuses.SUCCEEDED))
_, rec_done = record("notify")
out = c.serialize()["state"]["contexts"][-1]
print("notify succeeded: record prev=%s; published on its transition: %s" % (rec_done["prev"], out))
more = offer()
print("workflow status:", c.get_workflow_status(), "| records of notify:", [i for i, r in enumerate(c.workflow_state.sequence) if r["id"] == "notify"])

violated = False
if idx1 == idx2 and second_ctx != first_ctx:
    print("VIOLATION: the started execution of notify (record #%d) is given another context on its retry" % idx1)
    violated = True
if idx1 == idx2 and second_ctx != rec_ctx:
    print("VIOLATION: what the retried attempt sees (%s) is not what its record says it saw (%s)" % (second_ctx, rec_ctx))
    violated = True
if second_input != first_input:
    print("VIOLATION: the action input changed between the attempts of one execution: %s -> %s" % (first_input, second_input))
    violated = True
if second_input["message"] != out.get("notified"):
    print("VIOLATION: the attempt ran with who=%s but the record published notified=%s" % (second_input["message"], out.get("notified")))
    violated = True

sys.exit(1 if violated else 0)
