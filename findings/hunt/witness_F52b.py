# witness written by a bug-hunt sub-agent (given only the property text); exit 1 = defect present
"""C04 finding 4: after the workflow failed, the late reports of a still in flight (paused, then
resumed) item of the failed with-items task are not absorbed: the "running" report opens a second
execution record of the task inside the failed workflow, its completion evaluates the transitions
a second time, and the clean-up task that already ran is staged and OFFERED AGAIN (plus a second
record of the fail command).

Run: cd /repo && /venv/bin/python _out/finding4.py   (exit 1 = violation observed)
"""
import os
import sys

sys.path.insert(0, os.environ.get("VERIF_REPO", "/repo"))

import orquesta  # noqa: E402
from orquesta import conducting, events, statuses  # noqa: E402
from orquesta.specs import native as specs  # noqa: E402

print("orquesta module:", orquesta.__file__)

WF = """
version: 1.0
tasks:
  work:
    with: <% list(1, 2) %>
    action: core.echo message=<% item() %>
    next:
      - when: <% failed() %>
        do: [cleanup, fail]
  cleanup:
    action: core.noop
"""

Action = events.ActionExecutionEvent
Item = events.TaskItemActionExecutionEvent

spec = specs.WorkflowSpec(WF)
assert not spec.inspect()
c = conducting.WorkflowConductor(spec)
c.request_workflow_status(statuses.RUNNING)


def show(label):
    print(
        "  %-36s workflow=%-8s records=%s staged=%s"
        % (
            label,
            c.get_workflow_status(),
            [(t["id"], t.get("status")) for t in c.workflow_state.sequence],
            [(s["id"], [i["status"] for i in s.get("items", [])]) for s in c.workflow_state.staged],
        )
    )


def poll():
    tasks = c.get_next_tasks()
    print("  get_next_tasks ->", [(t["id"], [a.get("item_id") for a in t["actions"]]) for t in tasks])
    return tasks


poll()
c.update_task_state("work", 0, Item(0, statuses.RUNNING))
c.update_task_state("work", 0, Item(1, statuses.RUNNING))
show("items acknowledged running")
c.update_task_state("work", 0, Item(0, statuses.PAUSED))
show("item 0 reports paused")
c.update_task_state("work", 0, Item(1, statuses.FAILED, result="boom"))
show("item 1 reports failed")
assert c.get_workflow_status() == statuses.FAILED
print("  workflow is terminal (failed); item 0 is still in flight (paused)")

offered = poll()
assert [t["id"] for t in offered] == ["cleanup"], "the documented clean-up task is offered once"
c.update_task_state("cleanup", 0, Action(statuses.RUNNING))
c.update_task_state("cleanup", 0, Action(statuses.SUCCEEDED))
show("cleanup ran and succeeded")
assert poll() == []

records_before = len(c.workflow_state.sequence)
c.update_task_state("work", 0, Item(0, statuses.RUNNING))
show("item 0 resumed: reports running (late)")
assert poll() == []
c.update_task_state("work", 0, Item(0, statuses.SUCCEEDED, result="ok"))
show("item 0 reports succeeded (late)")
records_after = len(c.workflow_state.sequence)
offered = poll()

print()
print("  status still failed: %s" % (c.get_workflow_status() == statuses.FAILED))
print("  execution records before/after the two late reports: %d/%d" % (records_before, records_after))
print("  offered after the late reports: %s" % [t["id"] for t in offered])

if offered or records_after != records_before:
    print("\nVIOLATION of C04: the late reports are not absorbed; tasks are offered again in a failed workflow.")
    sys.exit(1)

print("\nNo violation observed.")
sys.exit(0)
