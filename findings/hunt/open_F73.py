# witness written by a bug-hunt sub-agent (given only the property text); exit 1 = defect present
#!/usr/bin/env python
# C15 / finding 3: an expression whose delimiters are malformed (unterminated "<% ... %", "{{ ... }")
# or that spans more than one line is neither validated nor reported: inspection accepts the
# definition and the engine then uses the raw text as a (truthy) literal, so the guarded transition
# is always followed.
import os
import sys

ROOT = os.environ.get("VERIF_REPO", "/repo")
sys.path.insert(0, ROOT)

import logging

logging.disable(logging.CRITICAL)

import orquesta
from orquesta import conducting, events, statuses
from orquesta.specs import native as specs

print("orquesta from", orquesta.__file__)


def definition(when):
    return {
        "version": 1.0,
        "vars": [{"n": 1}],
        "tasks": {
            "build": {
                "action": "core.noop",
                "next": [
                    {"when": "<% succeeded() %>", "do": "ship"},
                    {"when": when, "do": "rollback"},
                ],
            },
            "ship": {"action": "core.noop"},
            "rollback": {"action": "core.noop"},
        },
    }


# (label, text of the "when" of the transition to rollback, a report is expected)
CASES = [
    ("control: well formed", "<% failed() %>", False),
    ("control: bad grammar inside well formed delimiters", "<% failed() and %>", True),
    ("control (jinja): unterminated after a well formed one", "{{ 1 }} {{ failed() }", True),
    ("yaql, closing delimiter lost its %", "<% failed() >", True),
    ("yaql, closing delimiter lost its >", "<% failed() and %", True),
    ("yaql, opening delimiter lost its %", "< failed() %>", True),
    ("jinja, closing delimiter lost a brace", "{{ failed() and }", True),
    ("yaql, unterminated after a well formed one", "<% 1 %> <% failed() and", True),
    ("yaql, bad grammar over two lines", "<% failed() and\n   %>", True),
    ("jinja, bad grammar over two lines", "{{ failed() and\n   }}", True),
]

violations = []

for label, when, expect_report in CASES:
    spec = specs.WorkflowSpec(definition(when))
    report = spec.inspect()
    print("\n[%s] when: %r" % (label, when))
    print("  inspect() ->", {k: [e["message"] for e in v] for k, v in report.items()} or "{} (accepted)")

    if report:
        continue

    conductor = conducting.WorkflowConductor(spec)
    conductor.request_workflow_status(statuses.RUNNING)
    assert [t["id"] for t in conductor.get_next_tasks()] == ["build"]
    conductor.update_task_state("build", 0, events.ActionExecutionEvent(statuses.RUNNING))
    conductor.update_task_state("build", 0, events.ActionExecutionEvent(statuses.SUCCEEDED))
    offered = [t["id"] for t in conductor.get_next_tasks()]
    print("  build SUCCEEDED; get_next_tasks() ->", offered, "errors ->", conductor.errors)

    if expect_report:
        print("  broken expression silently accepted; rollback offered:", "rollback" in offered)
        violations.append(label)

print()

if violations:
    print("VIOLATION: expression with invalid grammar silently accepted in:", violations)
    sys.exit(1)

print("no violation observed")
sys.exit(0)
