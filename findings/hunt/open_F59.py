# witness written by a bug-hunt sub-agent (given only the property text); exit 1 = defect present
"""C16 finding 2: Jinja dotted references return a bound dict method when the key is named like one.

`ctx().<name>` and `<value>.<key>` are the documented dot notation. In Jinja the evaluator hands the
plain python dicts to the sandbox, whose attribute lookup prefers python attributes over keys. For a
key (or a workflow variable) called items / keys / values / get / pop / update / copy / ... the
reference silently evaluates to `<built-in method items of dict object ...>` instead of the value.
No error is raised: the method object becomes the action input, is published and ends up in the
workflow output, and the conductor state can no longer be stored as JSON. The equivalent YAQL
expression returns the value.
"""
import json
import os
import sys

ROOT = os.environ.get("VERIF_REPO", "/repo")
sys.path.insert(0, ROOT)

import orquesta  # noqa: E402
from orquesta import conducting, events, statuses  # noqa: E402
from orquesta.expressions import base as expr_base  # noqa: E402
from orquesta.specs import native as specs  # noqa: E402

print("orquesta:", orquesta.__file__)

violated = False

# 1. Evaluator level -----------------------------------------------------------------------------
data = {"resp": {"kind": "PodList", "items": [{"name": "a"}, {"name": "b"}]}, "values": [1, 2, 3]}
checks = [
    ("<% ctx().resp.items %>", data["resp"]["items"]),
    ("{{ ctx().resp.items }}", data["resp"]["items"]),
    ("{{ ctx('resp').items }}", data["resp"]["items"]),
    ("{{ ctx().resp['items'] }}", data["resp"]["items"]),
    ("<% ctx().values %>", data["values"]),
    ("{{ ctx().values }}", data["values"]),
    ("{{ ctx('values') }}", data["values"]),
]
print("-- expressions.base.evaluate()")
for expr, expected in checks:
    got = expr_base.evaluate(expr, data)
    ok = got == expected and type(got) is type(expected)
    print("   %-28s -> %r%s" % (expr, got, "" if ok else "     <-- not the value"))
    violated = violated or not ok
    assert not expr_base.validate(expr)["errors"]


# 2. Through the conductor -------------------------------------------------------------------------
def wf(e):
    return {
        "version": 1.0,
        "tasks": {
            "list_pods": {
                "action": "k8s.list_pods",
                "next": [
                    {
                        "when": e("succeeded()"),
                        "publish": [{"pods": e("result().items")}],
                        "do": "report",
                    }
                ],
            },
            "report": {"action": "core.echo", "input": {"message": e("ctx().pods")}},
        },
        "output": [{"pods": e("ctx().pods")}],
    }


RESULT = {"kind": "PodList", "items": [{"name": "a"}, {"name": "b"}]}

for lang, e in (("yaql", lambda s: "<% " + s + " %>"), ("jinja", lambda s: "{{ " + s + " }}")):
    print("--", lang, "workflow")
    spec = specs.WorkflowSpec(wf(e))
    assert not spec.inspect(), spec.inspect()
    c = conducting.WorkflowConductor(spec)
    c.request_workflow_status(statuses.RUNNING)
    t = c.get_next_tasks()[0]
    c.update_task_state(t["id"], t["route"], events.ActionExecutionEvent(statuses.RUNNING))
    ev = events.ActionExecutionEvent(statuses.SUCCEEDED, result=json.loads(json.dumps(RESULT)))
    c.update_task_state(t["id"], t["route"], ev)
    t = c.get_next_tasks()[0]
    msg = t["actions"][0]["input"]["message"]
    print("   input of %s: %r" % (t["id"], msg))
    c.update_task_state(t["id"], t["route"], events.ActionExecutionEvent(statuses.RUNNING))

    try:
        json.dumps(c.serialize())
        print("   serialize() -> JSON: ok")
    except TypeError as ex:
        print("   serialize() -> JSON: TypeError:", ex)
        violated = True

    c.update_task_state(t["id"], t["route"], events.ActionExecutionEvent(statuses.SUCCEEDED))
    c.render_workflow_output()
    out = c.get_workflow_output()
    print("   workflow:", c.get_workflow_status(), "errors:", c.errors, "output:", out)

    if msg != RESULT["items"] or out != {"pods": RESULT["items"]}:
        print("   VIOLATION: the list under the key 'items' did not reach the action input / output")
        violated = True

sys.exit(1 if violated else 0)
