# witness written by a bug-hunt sub-agent (given only the property text); exit 1 = defect present
#!/usr/bin/env python
# C11 finding 3: a Jinja expression whose failing lookup (missing key) sits inside a list or dict
# value is not detected at all: nothing is recorded, the workflow goes on and succeeds, and a
# jinja2 StrictUndefined object is stored in the context, handed to the next task as input and
# returned as workflow output. The YAQL equivalent fails the workflow as the property demands.
import json
import os
import sys

ROOT = os.environ.get("VERIF_REPO", "/repo")
sys.path.insert(0, ROOT)

import orquesta  # noqa: E402
from orquesta import conducting, events, statuses  # noqa: E402
from orquesta.specs import native as specs  # noqa: E402

print("orquesta loaded from", orquesta.__file__)

WF = """
version: 1.0
output:
  - ips: %(ref)s
tasks:
  list_servers:
    action: core.noop
    next:
      - when: %(ok)s
        publish:
          - ips: '%(publish)s'
        do: configure
  configure:
    action: core.echo
    input:
      message: %(ref)s
"""

RESULT = {"servers": [{"name": "a", "ip": "10.0.0.1"}, {"name": "b"}], "primary": "a"}


def has_undefined(value):
    import jinja2

    if isinstance(value, jinja2.Undefined):
        return True
    if isinstance(value, dict):
        return any(has_undefined(k) or has_undefined(v) for k, v in value.items())
    if isinstance(value, (list, tuple)):
        return any(has_undefined(v) for v in value)
    return False


def drive(title, publish, ok, ref):
    print("\n=== %s ===\n    publish: %s" % (title, publish))
    spec = specs.WorkflowSpec(WF % {"publish": publish, "ok": ok, "ref": ref})
    assert not spec.inspect(), spec.inspect()
    c = conducting.WorkflowConductor(spec)
    c.request_workflow_status(statuses.RUNNING)
    print("offered:", [t["id"] for t in c.get_next_tasks()])
    c.update_task_state("list_servers", 0, events.ActionExecutionEvent(statuses.RUNNING))
    c.update_task_state(
        "list_servers", 0, events.ActionExecutionEvent(statuses.SUCCEEDED, result=RESULT)
    )
    print("after list_servers succeeded: workflow=%s errors=%s" % (
        c.get_workflow_status(), [e["message"][:90] for e in c.errors]))
    offered = c.get_next_tasks()
    print("offered:", [(t["id"], t["actions"]) for t in offered])
    leaked = False

    for t in offered:
        leaked = leaked or has_undefined(t["actions"])
        c.update_task_state(t["id"], t["route"], events.ActionExecutionEvent(statuses.RUNNING))
        c.update_task_state(t["id"], t["route"], events.ActionExecutionEvent(statuses.SUCCEEDED))

    c.render_workflow_output()
    print("final: workflow=%s errors=%s output=%r" % (
        c.get_workflow_status(), c.errors, c.get_workflow_output()))
    leaked = leaked or has_undefined(c.get_workflow_output()) or has_undefined(
        c.workflow_state.contexts)

    try:
        json.dumps(c.serialize())
        print("json.dumps(conductor.serialize()): ok")
    except Exception as e:  # noqa
        print("json.dumps(conductor.serialize()): %s: %s" % (type(e).__name__, e))

    return c, bool(offered), leaked


violations = 0

for title, jinja, yaql in [
    (
        "a filter chain over a list one element of which lacks the attribute",
        '{{ result().servers | map(attribute="ip") | list }}',
        "<% result().servers.select($.ip) %>",
    ),
    (
        "a dict literal one value of which is a missing key",
        '{{ {"primary": result().primary, "backup": result().backup} }}',
        "<% dict(primary=>result().primary, backup=>result().backup) %>",
    ),
]:
    c, offered, leaked = drive("YAQL control: " + title, yaql, "<% succeeded() %>", "<% ctx().ips %>")
    assert c.get_workflow_status() == statuses.FAILED and c.errors and not offered

    c, offered, leaked = drive("Jinja: " + title, jinja, '"{{ succeeded() }}"', '"{{ ctx().ips }}"')

    if c.get_workflow_status() != statuses.FAILED or not c.errors or offered or leaked:
        violations += 1
        print("    VIOLATION: the failed lookup is not recorded, workflow=%s, task offered=%s, "
              "Undefined object leaked=%s" % (c.get_workflow_status(), offered, leaked))

print("\nviolations observed:", violations)
sys.exit(1 if violations else 0)
