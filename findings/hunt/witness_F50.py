# witness written by a bug-hunt sub-agent (given only the property text); exit 1 = defect present
#!/usr/bin/env python
# C11 finding 2: evaluation failures that are not ExpressionEvaluationException (TypeError from an
# expression used as a dict key, jinja2.TemplateSyntaxError from the raw-block re-render) escape
# from publish / vars / input / output, are not recorded, and leave the workflow "running".
import os
import sys
import traceback

ROOT = os.environ.get("VERIF_REPO", "/repo")
sys.path.insert(0, ROOT)

import orquesta  # noqa: E402
from orquesta import conducting, events, statuses  # noqa: E402
from orquesta import exceptions as exc  # noqa: E402
from orquesta.specs import native as specs  # noqa: E402

print("orquesta loaded from", orquesta.__file__)

violations = 0


def conductor(wf_def, inputs=None):
    spec = specs.WorkflowSpec(wf_def)
    assert not spec.inspect(), spec.inspect()
    return conducting.WorkflowConductor(spec, inputs=inputs or {})


def call(label, func, *args):
    try:
        func(*args)
        print("%-58s -> returned" % label)
        return None
    except Exception as e:  # noqa
        print("%-58s -> RAISED %s: %s" % (label, type(e).__name__, e))
        tb = traceback.extract_tb(e.__traceback__)
        print("    raised at", ", ".join("%s:%d" % (os.path.basename(f.filename), f.lineno)
                                         for f in tb[-3:]))
        return e


def state(c):
    print("    workflow=%s errors=%s staged=%s" % (
        c.get_workflow_status(), c.errors, [s["id"] for s in c.workflow_state.staged]))


# --------------------------------------------------------------------------------------------
print("\n=== 2a: publish, the key of a published dict is an expression that yields a list ===")
WF_PUBLISH = """
version: 1.0
tasks:
  t1:
    action: core.noop
    next:
      - when: <% succeeded() %>
        publish:
          - counts: {"<% result().name %>": 1}
        do: t2
  t2:
    action: core.noop
"""
c = conductor(WF_PUBLISH)
c.request_workflow_status(statuses.RUNNING)
print("offered:", [t["id"] for t in c.get_next_tasks()])
c.update_task_state("t1", 0, events.ActionExecutionEvent(statuses.RUNNING))
e = call("update_task_state(t1, succeeded, result={'name': ['a','b']})", c.update_task_state,
         "t1", 0, events.ActionExecutionEvent(statuses.SUCCEEDED, result={"name": ["a", "b"]}))
state(c)
print("    next offer:", [t["id"] for t in c.get_next_tasks()])
if e is not None or (not c.errors and c.get_workflow_status() != statuses.FAILED):
    violations += 1
    print("    VIOLATION: exception escaped / nothing recorded / workflow left", c.get_workflow_status(),
          "with nothing in flight and nothing on offer")

print("--- control: result={'name': 'a'} (a hashable key) ---")
c = conductor(WF_PUBLISH)
c.request_workflow_status(statuses.RUNNING)
c.get_next_tasks()
c.update_task_state("t1", 0, events.ActionExecutionEvent(statuses.RUNNING))
assert call("update_task_state(t1, succeeded, result={'name': 'a'})", c.update_task_state,
            "t1", 0, events.ActionExecutionEvent(statuses.SUCCEEDED, result={"name": "a"})) is None
print("    next offer:", [t["id"] for t in c.get_next_tasks()])

print("--- control: the same failing expression in a task input is contained by get_next_tasks ---")
WF_INPUT = """
version: 1.0
input:
  - names
tasks:
  t1:
    action: core.noop
    input:
      counts: {"<% ctx().names %>": 1}
"""
c = conductor(WF_INPUT, {"names": ["a", "b"]})
c.request_workflow_status(statuses.RUNNING)
assert call("get_next_tasks()", c.get_next_tasks) is None
state(c)
assert c.get_workflow_status() == statuses.FAILED and c.errors

# --------------------------------------------------------------------------------------------
print("\n=== 2b: vars, same kind of failure, escapes the first API call and half-initialises ===")
WF_VARS = """
version: 1.0
input:
  - names
vars:
  - counts: {"<% ctx().names %>": 0}
tasks:
  t1:
    action: core.noop
"""
c = conductor(WF_VARS, {"names": ["a", "b"]})
e = call("request_workflow_status(running)", c.request_workflow_status, statuses.RUNNING)
state(c)
e2 = call("request_workflow_status(running) again", c.request_workflow_status, statuses.RUNNING)
state(c)
print("    next offer:", [t["id"] for t in c.get_next_tasks()], "contexts:", c.workflow_state.contexts)
if e is not None and not isinstance(e, exc.InvalidWorkflowStatusTransition):
    violations += 1
    print("    VIOLATION: TypeError escaped; afterwards the workflow can be set running with no "
          "context, no staged task and no error")

# --------------------------------------------------------------------------------------------
print("\n=== 2c: output, same kind of failure, escapes render_workflow_output ===")
WF_OUTPUT = """
version: 1.0
input:
  - names
output:
  - counts: {"<% ctx().names %>": 0}
tasks:
  t1:
    action: core.noop
"""
c = conductor(WF_OUTPUT, {"names": ["a", "b"]})
c.request_workflow_status(statuses.RUNNING)
c.get_next_tasks()
c.update_task_state("t1", 0, events.ActionExecutionEvent(statuses.RUNNING))
c.update_task_state("t1", 0, events.ActionExecutionEvent(statuses.SUCCEEDED))
e = call("render_workflow_output()", c.render_workflow_output)
state(c)
if e is not None or (not c.errors):
    violations += 1
    print("    VIOLATION: exception escaped, nothing recorded, workflow stays", c.get_workflow_status())

# --------------------------------------------------------------------------------------------
print("\n=== 2d: publish (Jinja): the re-render of a {% raw %} block is outside the evaluator's guard ===")
WF_RAW = """
version: 1.0
tasks:
  t1:
    action: core.noop
    next:
      - when: "{{ succeeded() }}"
        publish:
          - msg: "{% raw %}{{ name }}{% endraw %} says {{ result().text }}"
        do: t2
  t2:
    action: core.noop
"""
c = conductor(WF_RAW)
c.request_workflow_status(statuses.RUNNING)
c.get_next_tasks()
c.update_task_state("t1", 0, events.ActionExecutionEvent(statuses.RUNNING))
e = call("update_task_state(t1, succeeded, result={'text': '50{% off'})", c.update_task_state,
         "t1", 0, events.ActionExecutionEvent(statuses.SUCCEEDED, result={"text": "50{% off"}))
state(c)
print("    next offer:", [t["id"] for t in c.get_next_tasks()])
if e is not None:
    violations += 1
    print("    VIOLATION: jinja2 exception escaped, nothing recorded, workflow stays",
          c.get_workflow_status())

print("\nviolations observed:", violations)
sys.exit(1 if violations else 0)
