# witness written by a bug-hunt sub-agent (given only the property text); exit 1 = defect present
"""C16 finding 3: evaluating a Jinja expression can modify the context it is evaluated against.

JinjaEvaluator.contextualize() hands the caller's dict (not a copy) to a plain SandboxedEnvironment,
which allows the mutating methods of list and dict (pop, append, sort, update, ...). The mutation
lands in the `data` argument of expressions.base.evaluate() and, because the conductor evaluates
several statements against one context object, in whatever is evaluated next:
  * the remaining input fields of the same task and the task["ctx"] handed to the provider,
  * the `when` / `publish` of the other transitions of a completed task,
  * the provider's own result object (it is aliased into the context, not copied).
The YAQL evaluator converts the context into immutable structures first, so it is pure.
"""
import copy
import os
import sys

ROOT = os.environ.get("VERIF_REPO", "/repo")
sys.path.insert(0, ROOT)

import orquesta  # noqa: E402
from orquesta import conducting, events, statuses  # noqa: E402
from orquesta.expressions import base as expr_base  # noqa: E402
from orquesta.specs import native as specs  # noqa: E402

print("orquesta:", orquesta.__file__)
violated = False

# 1. Evaluator level: context compared before / after evaluate() ---------------------------------
print("-- expressions.base.evaluate(): context before/after")
for expr in (
    "{{ ctx().queue.pop(0) }}",
    "{{ ctx().queue.append('z') }}",
    "{{ ctx().queue.sort(reverse=true) }}",
    "{{ ctx().conf.update({'debug': true}) }}",
    "{{ ctx().conf.pop('retries') }}",
    "{{ ctx('conf').setdefault('extra', []) }}",
    "<% ctx().queue.skip(1) %>",
    "<% ctx().conf.set(debug, true) %>",
    "<% ctx().conf.delete(retries) %>",
):
    data = {"queue": ["b", "a", "c"], "conf": {"retries": 3}}
    before = copy.deepcopy(data)
    result = expr_base.evaluate(expr, data)
    changed = data != before
    print("   %-44s -> %-28r context %s" % (expr, result, "MODIFIED: %r" % data if changed else "unchanged"))
    violated = violated or changed

# 2. Task rendering: one input field's expression changes what the next field sees ----------------
print("-- get_next_tasks(): rendering of a task")
WF1 = """
version: 1.0
input:
  - queue
tasks:
  take:
    action: core.echo
    input:
      head: "{{ ctx().queue.pop(0) }}"
      everything: "{{ ctx().queue }}"
"""
spec = specs.WorkflowSpec(WF1)
assert not spec.inspect(), spec.inspect()
c = conducting.WorkflowConductor(spec, inputs={"queue": ["a", "b", "c"]})
c.request_workflow_status(statuses.RUNNING)
task = c.get_next_tasks()[0]
print("   stored context of the task :", c.get_task_initial_context("take", 0))
print("   rendered input             :", task["actions"][0]["input"])
print("   task['ctx']['queue']       :", task["ctx"]["queue"])
if task["actions"][0]["input"]["everything"] != ["a", "b", "c"] or task["ctx"]["queue"] != ["a", "b", "c"]:
    print("   VIOLATION: evaluating `head` changed the context `everything` was evaluated against")
    violated = True
c.update_task_state("take", 0, events.ActionExecutionEvent(statuses.RUNNING))
c.update_task_state("take", 0, events.ActionExecutionEvent(statuses.SUCCEEDED))

# 3. Task completion: a `when` changes what the other transition publishes, and the caller's result.
#    (The transitions of a task are evaluated in the order of their target task names: alert < done.)
print("-- update_task_state(): transitions of a completed task")
WF2 = """
version: 1.0
tasks:
  check:
    action: lint.run
    next:
      - when: "{{ result().pop('warnings', []) | length > 0 }}"
        do: alert
      - when: "{{ succeeded() }}"
        publish:
          - report: "{{ result() }}"
        do: done
  alert:
    action: core.noop
  done:
    action: core.noop
output:
  - report: "{{ ctx().report }}"
"""
spec = specs.WorkflowSpec(WF2)
assert not spec.inspect(), spec.inspect()
c = conducting.WorkflowConductor(spec)
c.request_workflow_status(statuses.RUNNING)
t = c.get_next_tasks()[0]
c.update_task_state(t["id"], t["route"], events.ActionExecutionEvent(statuses.RUNNING))
provider_result = {"files": 12, "warnings": []}
sent = copy.deepcopy(provider_result)
c.update_task_state(t["id"], t["route"], events.ActionExecutionEvent(statuses.SUCCEEDED, result=provider_result))
published = c.get_task_initial_context("done", 0)
print("   result reported            :", sent)
print("   provider's object afterward:", provider_result)
print("   context published to `done`:", published)
if provider_result != sent or published.get("report") != sent:
    print("   VIOLATION: the `when` of the first transition changed the result seen by the second")
    violated = True
for t in c.get_next_tasks():
    c.update_task_state(t["id"], t["route"], events.ActionExecutionEvent(statuses.RUNNING))
    c.update_task_state(t["id"], t["route"], events.ActionExecutionEvent(statuses.SUCCEEDED))
c.render_workflow_output()
print("   workflow:", c.get_workflow_status(), "output:", c.get_workflow_output())

sys.exit(1 if violated else 0)
