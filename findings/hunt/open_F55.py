# witness written by a bug-hunt sub-agent (given only the property text); exit 1 = defect present
"""C06 finding 4: the workflow output is frozen by the first render_workflow_output() call made
after the workflow reached a completed status, although tasks that were already in flight (or the
remediation tasks the conductor still offers after a `fail` command) keep completing, keep
publishing, and are flagged terminal.  The same history gives a different output depending only on
whether the provider rendered the output once at the very end or (as a real provider does, to
persist the record) every time the status is completed.

Run: cd /repo && /venv/bin/python _out/finding4.py
"""
import os
import sys

sys.path.insert(0, os.environ.get("VERIF_REPO", "/repo"))

import orquesta  # noqa: E402
from orquesta import conducting, events, statuses  # noqa: E402
from orquesta.specs import native as specs  # noqa: E402

print("orquesta from", orquesta.__file__)

# Documented pattern: run a cleanup task and fail the workflow.
CLEANUP_WF = """
version: 1.0
vars:
  - cleaned: false
output:
  - cleaned: <% ctx().cleaned %>
  - error: <% ctx().error %>
tasks:
  work:
    action: core.noop
    next:
      - when: <% failed() %>
        publish:
          - error: <% result() %>
        do:
          - cleanup
          - fail
  cleanup:
    action: core.noop
    next:
      - when: <% succeeded() %>
        publish:
          - cleaned: true
"""

# Two parallel tasks; one fails fast while the other is still running.
PARALLEL_WF = """
version: 1.0
vars:
  - x: init
output:
  - x: <% ctx().x %>
tasks:
  slow:
    action: core.noop
    next:
      - when: <% succeeded() %>
        publish:
          - x: <% result() %>
  fast:
    action: core.noop
"""


class Driver(object):
    def __init__(self, wf, render_when_completed):
        spec = specs.WorkflowSpec(wf)
        assert not spec.inspect(), spec.inspect()
        self.c = conducting.WorkflowConductor(spec)
        self.render_when_completed = render_when_completed
        self.c.request_workflow_status(statuses.RUNNING)

    def persist(self):
        # What a provider does after every call to keep its record of the execution current.
        if self.render_when_completed and self.c.get_workflow_status() in statuses.COMPLETED_STATUSES:
            self.c.render_workflow_output()
            print("    (provider renders: status %s output %s)"
                  % (self.c.get_workflow_status(), self.c.get_workflow_output()))

    def offer(self):
        tasks = self.c.get_next_tasks()
        for t in tasks:
            ctx = {k: v for k, v in t["ctx"].items() if not k.startswith("__")}
            print("  offered %-8s ctx %s" % (t["id"], ctx))
            self.c.update_task_state(t["id"], t["route"], events.ActionExecutionEvent(statuses.RUNNING))
        return tasks

    def report(self, task_id, status, result=None):
        self.c.update_task_state(task_id, 0, events.ActionExecutionEvent(status, result=result))
        print("  %s %s -> workflow %s" % (task_id, status, self.c.get_workflow_status()))
        self.persist()

    def finish(self):
        self.c.render_workflow_output()
        terms = [(t["id"], t["ctxs"]["in"]) for _, t in self.c.workflow_state.get_terminal_tasks()]
        print("  contexts %s terminal %s" % (self.c.workflow_state.contexts, terms))
        print("  final: status %s output %s" % (self.c.get_workflow_status(), self.c.get_workflow_output()))
        return self.c.get_workflow_output()


def cleanup_history(render_when_completed):
    d = Driver(CLEANUP_WF, render_when_completed)
    d.offer()
    d.report("work", statuses.FAILED, result="disk full")
    d.offer()                      # the conductor offers the remediation task of the failed workflow
    d.report("cleanup", statuses.SUCCEEDED)
    return d.finish()


def parallel_history(render_when_completed):
    d = Driver(PARALLEL_WF, render_when_completed)
    d.offer()
    d.report("fast", statuses.FAILED, result="boom")
    d.report("slow", statuses.SUCCEEDED, result="from-slow")
    return d.finish()


violated = False

for name, history, expected in [
    ("cleanup and fail", cleanup_history, {"cleaned": True, "error": "disk full"}),
    ("fail fast with a task in flight", parallel_history, {"x": "from-slow"}),
]:
    print("%s, output rendered once at the end:" % name)
    once = history(False)
    print("%s, output rendered whenever the status is completed:" % name)
    each = history(True)

    if once != each or each != expected:
        print("VIOLATION (%s): expected %s; rendered once: %s; rendered on every completed status: %s"
              % (name, expected, once, each))
        violated = True

if violated:
    sys.exit(1)

print("no violation observed")
sys.exit(0)
