# witness written by a bug-hunt sub-agent (given only the property text); exit 1 = defect present
"""C16 finding 1: `with: items: <name> in <expr>` truncates list-valued items.

With the documented single-name form ("message in <% ctx(messages) %>") every item is supposed to be
reachable, unchanged, as item(<name>). When an item is itself a list, TaskSpec.render() destructures
it over the one name: item(<name>) yields only the first element, the rest is dropped silently, and
an empty list makes the task (and the workflow) fail. The same items without a name (item()) flow
through unchanged.
"""
import os
import sys

ROOT = os.environ.get("VERIF_REPO", "/repo")
sys.path.insert(0, ROOT)

import orquesta  # noqa: E402
from orquesta import conducting, events, statuses  # noqa: E402
from orquesta.specs import native as specs  # noqa: E402

print("orquesta:", orquesta.__file__)

WF = """
version: 1.0
input:
  - rows
tasks:
  process:
    with:
      items: %(items)s
    action: core.echo
    input:
      row: %(ref)s
    next:
      - when: <%% succeeded() %%>
        publish:
          - echoed: <%% result() %%>
output:
  - echoed: <%% ctx().echoed %%>
"""

ROWS = [[1, 2], ["a", "b", "c"], [[5, 6], 7]]


def run(label, items, ref, rows):
    print("--", label, "| items:", items, "| reference:", ref)
    spec = specs.WorkflowSpec(WF % {"items": items, "ref": ref})
    errors = spec.inspect()
    assert not errors, errors
    c = conducting.WorkflowConductor(spec, inputs={"rows": rows})
    c.request_workflow_status(statuses.RUNNING)
    tasks = c.get_next_tasks()
    if not tasks:
        print("   no task offered; workflow status:", c.get_workflow_status())
        print("   errors:", [e["message"] for e in c.errors])
        return None
    task = tasks[0]
    seen = [a["input"]["row"] for a in task["actions"]]
    print("   action inputs offered:", seen)
    acc = []
    for a in task["actions"]:
        ev = events.TaskItemActionExecutionEvent(a["item_id"], statuses.RUNNING)
        c.update_task_state(task["id"], task["route"], ev)
    for a in task["actions"]:
        # The action echoes its input.
        acc.append(a["input"]["row"])
        ev = events.TaskItemActionExecutionEvent(
            a["item_id"], statuses.SUCCEEDED, result=a["input"]["row"], accumulated_result=list(acc)
        )
        c.update_task_state(task["id"], task["route"], ev)
    c.render_workflow_output()
    print("   workflow:", c.get_workflow_status(), "output:", c.get_workflow_output())
    return seen


violated = False

base = run("unnamed items (reference)", "<% ctx().rows %>", "<% item() %>", ROWS)
named_yaql = run("named item, YAQL", "row in <% ctx().rows %>", "<% item(row) %>", ROWS)
named_jinja = run("named item, Jinja", "row in {{ ctx().rows }}", "\"{{ item('row') }}\"", ROWS)
empty = run("named item, an empty list among the items", "row in <% ctx().rows %>", "<% item(row) %>", [[], [1]])

print()
print("expected every form to offer:", ROWS)
if base != ROWS:
    print("VIOLATION (unexpected): unnamed form changed the items:", base)
    violated = True
for label, seen in (("YAQL", named_yaql), ("Jinja", named_jinja)):
    if seen != ROWS:
        print("VIOLATION: named form (%s) delivered %r instead of %r" % (label, seen, ROWS))
        violated = True
if empty != [[], [1]]:
    print("VIOLATION: items [[], [1]] with a named item ->", empty)
    violated = True

sys.exit(1 if violated else 0)
