# witness written by a bug-hunt sub-agent (given only the property text); exit 1 = defect present
#!/usr/bin/env python
# C11 finding 4: the retry count / delay expressions are evaluated again when a task is rerun
# (request_workflow_rerun -> _request_task_rerun -> add_task_state). A failure there is recorded
# and the workflow is set to failed - but request_workflow_rerun then overwrites the status with
# "resuming", so the task is offered (without its retry policy) and the workflow can succeed with
# the expression error on record. At the first run the same failure fails the workflow.
import os
import sys

ROOT = os.environ.get("VERIF_REPO", "/repo")
sys.path.insert(0, ROOT)

import orquesta  # noqa: E402
from orquesta import conducting, events, statuses  # noqa: E402
from orquesta import requests  # noqa: E402
from orquesta.specs import native as specs  # noqa: E402

print("orquesta loaded from", orquesta.__file__)

WF = """
version: 1.0
input:
  - attempts
tasks:
  t1:
    action: core.noop
    retry:
      count: <% ctx().attempts %>
      delay: 1
    next:
      - when: <% succeeded() %>
        do: t2
  t2:
    action: core.noop
"""


def show(c, label):
    print("%-46s workflow=%-9s errors=%s" % (
        label, c.get_workflow_status(), [(e.get("task_id"), e["message"]) for e in c.errors]))


def drive(explicit):
    print("\n=== rerun %s ===" % ("of task t1 (explicit request)" if explicit else "(default)"))
    spec = specs.WorkflowSpec(WF)
    assert not spec.inspect(), spec.inspect()
    # The count arrives as the string "3" (e.g. from a form): not an integer.
    c = conducting.WorkflowConductor(spec, inputs={"attempts": "3"})
    c.request_workflow_status(statuses.RUNNING)
    print("offered:", [t["id"] for t in c.get_next_tasks()])
    c.update_task_state("t1", 0, events.ActionExecutionEvent(statuses.RUNNING))
    show(c, "first run, after ack(running) of t1:")
    assert c.get_workflow_status() == statuses.FAILED and c.errors  # contained as the property says
    c.update_task_state("t1", 0, events.ActionExecutionEvent(statuses.FAILED))
    show(c, "first run, after t1 reported failed:")
    print("offered:", [t["id"] for t in c.get_next_tasks()])

    # Round trip, as a real provider would persist the conductor.
    c = conducting.WorkflowConductor.deserialize(c.serialize())

    if explicit:
        c.request_workflow_rerun(task_requests=[requests.TaskRerunRequest.new("t1", 0)])
    else:
        c.request_workflow_rerun()

    show(c, "after request_workflow_rerun:")
    recorded = any("retry count" in e["message"] for e in c.errors)
    status_after_rerun = c.get_workflow_status()
    offered = c.get_next_tasks()
    print("offered:", [t["id"] for t in offered])

    for t in offered:
        c.update_task_state(t["id"], t["route"], events.ActionExecutionEvent(statuses.RUNNING))
        c.update_task_state(t["id"], t["route"], events.ActionExecutionEvent(statuses.SUCCEEDED))

    more = c.get_next_tasks()
    print("offered:", [t["id"] for t in more])

    for t in more:
        c.update_task_state(t["id"], t["route"], events.ActionExecutionEvent(statuses.RUNNING))
        c.update_task_state(t["id"], t["route"], events.ActionExecutionEvent(statuses.SUCCEEDED))

    show(c, "end:")
    print("retry policy in the rerun task entry:", c.get_task_state_entry("t1", 0).get("retry"))

    violated = recorded and (status_after_rerun != statuses.FAILED or bool(offered))

    if violated:
        print("    VIOLATION: the failure to evaluate the retry count at rerun is on record, yet the "
              "workflow is %s after the rerun request, t1 is offered, and the workflow ends %s"
              % (status_after_rerun, c.get_workflow_status()))

    return violated


violations = sum([drive(False), drive(True)])
print("\nviolations observed:", violations)
sys.exit(1 if violations else 0)
