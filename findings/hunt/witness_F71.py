# witness written by a bug-hunt sub-agent (given only the property text); exit 1 = defect present
#!/usr/bin/env python
# C15 / finding 2: in a string property (when, delay, retry.when, with.items, string input) the
# context check is skipped altogether as soon as the text contains something shaped like an inline
# parameter (word=literal), e.g. the YAQL equality "ctx().mode='fast'" or "result().rc=0".
import os
import sys

ROOT = os.environ.get("VERIF_REPO", "/repo")
sys.path.insert(0, ROOT)

import logging

logging.disable(logging.CRITICAL)

import orquesta
from orquesta import conducting, events, statuses
from orquesta.specs import native as specs

print("orquesta from", orquesta.__file__)

WF = """
version: 1.0
input:
  - hosts: [alpha, beta]
tasks:
  deploy:
    action: core.noop
    next:
      - when: %(when)s
        do: fast_path
      - when: <%% failed() %%>
        do: fail
  fast_path:
    action: core.noop
"""

# Nothing assigns "mode". Every line below references it in a documented form: ctx().mode
CASES = [
    ("control: spaces around =", "<% succeeded() and ctx().mode = 'fast' %>"),
    ("control: no comparison", "<% succeeded() and ctx().mode %>"),
    ("compact equality with a string", "<% succeeded() and ctx().mode='fast' %>"),
    ("compact equality on another operand", "<% result().rc=0 and ctx().mode %>"),
    ("compact equality with a boolean", "<% ctx().mode=true %>"),
]

violations = []

for label, when in CASES:
    spec = specs.WorkflowSpec(WF % {"when": when})
    report = spec.inspect()
    ctx_msgs = [e["message"] for e in report.get("context", [])]
    reported = any('"mode"' in m for m in ctx_msgs)
    print("\n[%s] when: %s" % (label, when))
    print("  inspect() ->", report if report else "{}  (accepted)")

    if reported:
        print("  the unassigned variable mode is reported")
        continue

    print('  the reference to "mode", which nothing assigns, is NOT reported')

    conductor = conducting.WorkflowConductor(spec)
    conductor.request_workflow_status(statuses.RUNNING)
    tasks = conductor.get_next_tasks()
    print("  get_next_tasks() ->", [t["id"] for t in tasks])
    conductor.update_task_state("deploy", 0, events.ActionExecutionEvent(statuses.RUNNING))
    conductor.update_task_state(
        "deploy", 0, events.ActionExecutionEvent(statuses.SUCCEEDED, result={"rc": 0})
    )
    print("  deploy succeeded; workflow status ->", conductor.get_workflow_status())
    print("  errors ->", [e["message"] for e in conductor.errors])
    violations.append(label)

# The same hole in the other string properties.
OTHERS = {
    "task delay": "tasks:\n  t1:\n    action: core.noop\n    delay: <% ctx().secs.where($.unit='s').len() %>\n",
    "retry when": "tasks:\n  t1:\n    action: core.noop\n    retry:\n      count: 2\n      when: <% failed() and ctx().secs=1 %>\n",
    "with items": "tasks:\n  t1:\n    action: core.echo message=<% item() %>\n    with: <% ctx().secs.where($.unit='s') %>\n",
    "task input (string)": "tasks:\n  t1:\n    action: core.echo\n    input: <% ctx().secs.where($.unit='s').first() %>\n",
}

for label, body in OTHERS.items():
    report = specs.WorkflowSpec("version: 1.0\n" + body).inspect()
    reported = any('"secs"' in e["message"] for e in report.get("context", []))
    print("\n[%s]\n%s  inspect() -> %s" % (label, body, report if report else "{}  (accepted)"))

    if not reported:
        print('  the reference to "secs", which nothing assigns, is NOT reported')
        violations.append(label)

print()

if violations:
    print("VIOLATION: unassigned variable silently accepted by inspection in:", violations)
    sys.exit(1)

print("no violation observed")
sys.exit(0)
