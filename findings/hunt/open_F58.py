# witness written by a bug-hunt sub-agent (given only the property text); exit 1 = defect present
"""C07 finding 2: a join that is staged and ready is not held back when a branch above it is rerun.

Both branches complete while the workflow is pausing, so the join is staged (ready) but never
offered; an unrelated task then fails the workflow. The operator reruns branch `a` (and the failed
task). The join is offered at once, together with `a`, i.e. while one of its two inbound tasks
has not completed its current execution - and it is offered a second time when `a` completes.
"""
import os
import sys

ROOT = os.environ.get("VERIF_REPO", "/repo")
sys.path.insert(0, ROOT)

import orquesta  # noqa: E402
from orquesta import conducting, events, requests, statuses  # noqa: E402
from orquesta.specs import native as specs  # noqa: E402

print(orquesta.__file__)

WF = """
version: 1.0
tasks:
  a:
    action: core.noop
    next:
      - when: <% succeeded() %>
        do: j
  b:
    action: core.noop
    next:
      - when: <% succeeded() %>
        do: j
  c:
    action: core.noop
  j:
    join: all
    action: core.noop
"""

spec = specs.WorkflowSpec(WF)
assert not spec.inspect(), spec.inspect()
c = conducting.WorkflowConductor(spec)
c.request_workflow_status(statuses.RUNNING)

join_offers = []


def inbound_state():
    return {t: (c.get_task_state_entry(t, 0) or {}).get("status") for t in ["a", "b"]}


def offer():
    tasks = [(t["id"], t["route"]) for t in c.get_next_tasks()]
    print("get_next_tasks ->", tasks)
    if ("j", 0) in tasks:
        join_offers.append(inbound_state())
        print("  join offered; latest records of its inbound tasks:", join_offers[-1])
    for tid, route in tasks:
        c.update_task_state(tid, route, events.ActionExecutionEvent(statuses.RUNNING))
        print("  ack %s running" % tid)
    return tasks


def report(tid, status):
    c.update_task_state(tid, 0, events.ActionExecutionEvent(status))
    print("report %s %s -> workflow %s" % (tid, status, c.get_workflow_status()))
    offer()  # the provider polls after every report


offer()  # a, b, c
c.request_workflow_status(statuses.PAUSING)
print("request pausing -> workflow", c.get_workflow_status())
report("a", statuses.SUCCEEDED)
report("b", statuses.SUCCEEDED)  # join is staged and ready, not offered: workflow is pausing
report("c", statuses.FAILED)
print("staged:", c.workflow_state.get_staged_tasks(filtered=False))

c.request_workflow_rerun(
    [requests.TaskRerunRequest.new("a", 0), requests.TaskRerunRequest.new("c", 0)]
)
print("rerun [a, c] -> workflow", c.get_workflow_status())
offer()  # a, c ... and j
if c.get_task_state_entry("j", 0) and c.get_task_state_entry("j", 0).get("status") == "running":
    report("j", statuses.SUCCEEDED)
report("c", statuses.SUCCEEDED)
report("a", statuses.SUCCEEDED)  # join offered again by the poll in report()
if c.get_task_state_entry("j", 0).get("status") == "running":
    report("j", statuses.SUCCEEDED)

executions = [t for t in c.workflow_state.sequence if t["id"] == "j"]
print("final workflow status:", c.get_workflow_status())
print("executions of the join in the history of the workflow:", len(executions))

violated = False
early = [s for s in join_offers if any(v not in statuses.COMPLETED_STATUSES for v in s.values())]
if early:
    print("VIOLATION: join offered while an inbound task had not completed:", early[0])
    violated = True
if len(join_offers) > 1:
    print("VIOLATION: join offered %d times for one rerun" % len(join_offers))
    violated = True

sys.exit(1 if violated else 0)
