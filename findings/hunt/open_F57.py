# witness written by a bug-hunt sub-agent (given only the property text); exit 1 = defect present
"""C18 finding 3: an explicit rerun leaves the successors that the superseded execution had staged
(but that never started, because the workflow had already failed) in staging. They are offered
together with the rerun task, on the superseded context; when the rerun task completes, the
successor is staged and offered again, and this second execution is booked on the record of the
first one, which is still running (no loop, no join involved): its context and predecessor are not
the ones of the record, its completion report is dropped, and the workflow ends on the superseded
value.

Exit 1 if the violation is observed, 0 if not.
"""
import json
import os
import sys

sys.path.insert(0, os.environ.get("VERIF_REPO", "/repo"))

import orquesta  # noqa: E402
from orquesta import conducting, events, requests, statuses  # noqa: E402
from orquesta.specs import native as specs  # noqa: E402

print("orquesta from", orquesta.__file__)

WF = """
version: 1.0
vars:
  - v: none
output:
  - report: <% ctx().get(c_saw) %>
tasks:
  init:
    action: core.noop
    next:
      - do: a, b
  a:
    action: core.noop
  b:
    action: core.noop
    next:
      - when: <% succeeded() %>
        publish: v=<% result() %>
        do: c
  c:
    action: core.echo message=<% ctx().v %>
    next:
      - when: <% succeeded() %>
        publish: c_saw=<% ctx().v %> c_result=<% result() %>
        do: d
  d:
    action: core.noop
"""

spec = specs.WorkflowSpec(WF)
assert not spec.inspect(), spec.inspect()
c = conducting.WorkflowConductor(spec)


def ac(status, result=None):
    return events.ActionExecutionEvent(status, result=result)


def strip(ctx):
    return {k: v for k, v in ctx.items() if not k.startswith("__")}


def offer():
    tasks = c.get_next_tasks()
    print("get_next_tasks ->", [(t["id"], t["route"], t["actions"][0]["input"]) for t in tasks])
    return tasks


def seq():
    return json.loads(json.dumps(c.serialize()["state"]["sequence"]))


def ack_all(tasks):
    for t in tasks:
        c.update_task_state(t["id"], t["route"], ac(statuses.RUNNING))


c.request_workflow_status(statuses.RUNNING)
ack_all(offer())
c.update_task_state("init", 0, ac(statuses.SUCCEEDED))
ack_all(offer())
print("a fails -> workflow", end=" ")
c.update_task_state("a", 0, ac(statuses.FAILED, result="boom"))
print(c.get_workflow_status(), "(b is still running)")
print("b succeeds with result 'old' -> c is staged but never offered, the workflow has failed")
c.update_task_state("b", 0, ac(statuses.SUCCEEDED, result="old"))
assert offer() == []
old_b = c.workflow_state.tasks["b__r0"]

print("request_workflow_rerun([a, b])")
c.request_workflow_rerun([requests.TaskRerunRequest.new("a", 0), requests.TaskRerunRequest.new("b", 0)])
new_b = c.workflow_state.tasks["b__r0"]
print("   b: superseded record #%d, rerun record #%d; staged: %s" % (old_b, new_b, [(s["id"], s["prev"]) for s in c.workflow_state.staged]))

tasks = offer()
first_c = [t for t in tasks if t["id"] == "c"]
ack_all(tasks)
if first_c:
    print("   c is offered together with the rerun of b, on the superseded context %s" % strip(first_c[0]["ctx"]))
    c1_idx = c.workflow_state.tasks["c__r0"]
    print("   c started: record #%d %s" % (c1_idx, json.dumps(seq()[c1_idx])))

c.update_task_state("a", 0, ac(statuses.SUCCEEDED))
print("the rerun of b succeeds with result 'new'")
c.update_task_state("b", 0, ac(statuses.SUCCEEDED, result="new"))

n_before = len(c.workflow_state.sequence)
snapshot = seq()
tasks = offer()
second_c = [t for t in tasks if t["id"] == "c"]
ack_all(tasks)
n_after = len(c.workflow_state.sequence)

violated = False
if first_c and second_c:
    seen = strip(second_c[0]["ctx"])
    idx = c.workflow_state.tasks["c__r0"]
    rec = seq()[idx]
    rec_ctx = strip(c.get_task_context(rec["ctxs"]["in"]))
    print("second execution of c started: records appended=%d, booked on record #%d %s" % (n_after - n_before, idx, json.dumps(rec)))
    print("   context of the record            : %s, predecessor b record #%s" % (rec_ctx, rec["prev"].get("b__t0")))
    print("   context given to this execution  : %s, staged by b record #%d" % (seen, new_b))
    if n_after == n_before:
        print("VIOLATION: two executions of c (no loop) share record #%d; the second one saw %s, the record says %s / predecessor #%s" % (idx, seen, rec_ctx, rec["prev"].get("b__t0")))
        violated = True

    print("the first execution of c reports succeeded('from old'), then the second one succeeded('from new')")
    c.update_task_state("c", 0, ac(statuses.SUCCEEDED, result="from old"))
    ack_all(offer())
    c.update_task_state("c", 0, ac(statuses.SUCCEEDED, result="from new"))
    ack_all(offer())
    c.update_task_state("d", 0, ac(statuses.SUCCEEDED))
    c.render_workflow_output()
    print("workflow:", c.get_workflow_status(), "output:", c.get_workflow_output())
    print("contexts:", c.serialize()["state"]["contexts"])
    print("records of c:", [(i, r.get("status"), r["ctxs"]["in"], r["prev"]) for i, r in enumerate(seq()) if r["id"] == "c"])
    if (c.get_workflow_output() or {}).get("report") == "old":
        print("VIOLATION: the report of the execution that saw v=new was dropped; the workflow ends on the superseded v=old")
        violated = True
else:
    print("c was offered once only (first=%s second=%s)" % (bool(first_c), bool(second_c)))

sys.exit(1 if violated else 0)
