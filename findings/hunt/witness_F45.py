# witness written by a bug-hunt sub-agent (given only the property text); exit 1 = defect present
#!/usr/bin/env python
"""C20 finding 1: a double-quoted inline string that begins or ends with an apostrophe loses it.

Twin definitions that differ only in notation (inline name=value vs. input:/publish: mappings)
are conducted through the same lock-step history. The offered action input, the published value
and the workflow output must be equal; they are not.
"""
import os
import sys

ROOT = os.environ.get("VERIF_REPO", "/repo")
sys.path.insert(0, ROOT)

import orquesta  # noqa: E402
from orquesta import conducting, events, statuses  # noqa: E402
from orquesta.specs import native as specs  # noqa: E402

print("orquesta loaded from", orquesta.__file__)

SHORT = """
version: 1.0
tasks:
  task1:
    action: core.local cmd="echo 'hello world'"
    next:
      - when: <% succeeded() %>
        publish: msg="the bosses'", quoted="'ok'"
        do: task2
  task2:
    action: core.echo message=<% ctx().msg %>
output:
  - msg: <% ctx().msg %>
  - quoted: <% ctx().quoted %>
"""

LONG = """
version: 1.0
tasks:
  task1:
    action: core.local
    input:
      cmd: "echo 'hello world'"
    next:
      - when: <% succeeded() %>
        publish:
          - msg: "the bosses'"
          - quoted: "'ok'"
        do:
          - task2
  task2:
    action: core.echo
    input:
      message: <% ctx().msg %>
output:
  - msg: <% ctx().msg %>
  - quoted: <% ctx().quoted %>
"""


def conduct(label, definition):
    print("--- %s" % label)
    spec = specs.WorkflowSpec(definition)
    obs = {"inspect": spec.inspect()}
    print("inspect():", obs["inspect"])
    conductor = conducting.WorkflowConductor(spec)
    obs["graph"] = conductor.graph.serialize()
    conductor.request_workflow_status(statuses.RUNNING)
    obs["offered"] = []

    while True:
        tasks = conductor.get_next_tasks()
        if not tasks:
            break
        for t in tasks:
            print("get_next_tasks() offers %s: %s" % (t["id"], t["actions"]))
            obs["offered"].append((t["id"], t["route"], t["actions"]))
            ev = events.ActionExecutionEvent(statuses.RUNNING)
            conductor.update_task_state(t["id"], t["route"], ev)
        for t in tasks:
            ev = events.ActionExecutionEvent(statuses.SUCCEEDED, result="done")
            conductor.update_task_state(t["id"], t["route"], ev)

    conductor.render_workflow_output()
    obs["status"] = conductor.get_workflow_status()
    obs["output"] = conductor.get_workflow_output()
    print("status:", obs["status"], "output:", obs["output"], "errors:", conductor.errors)
    return obs


a = conduct("shorthand", SHORT)
b = conduct("long form", LONG)

violated = False
for key in ("inspect", "graph", "offered", "status", "output"):
    same = a[key] == b[key]
    print("%-8s %s" % (key, "same" if same else "DIFFERENT"))
    if not same:
        print("   shorthand:", a[key])
        print("   long form:", b[key])
        violated = True

print("VIOLATION" if violated else "no violation")
sys.exit(1 if violated else 0)
