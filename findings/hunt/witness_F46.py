# witness written by a bug-hunt sub-agent (given only the property text); exit 1 = defect present
"""C06 finding 2: when TWO transitions of one task lead to the same target (a task in a loop, or a
join), the value published on the first transition is replaced, for the target, by the OLDER value
that the publishing task itself had received.  No second branch is involved: the stale value comes
back in with the second transition of the very same task.

    init --(publish p=old)--> b ==(t0: when succeeded, publish p=new)==> a --(loop, once)--> b
                                ==(t1: when completed, publish q=1  )==> a

Run: cd /repo && /venv/bin/python _out/finding2.py
"""
import os
import sys

sys.path.insert(0, os.environ.get("VERIF_REPO", "/repo"))

import orquesta  # noqa: E402
from orquesta import conducting, events, statuses  # noqa: E402
from orquesta.specs import native as specs  # noqa: E402

print("orquesta from", orquesta.__file__)

LOOP_WF = """
version: 1.0
vars:
  - n: 0
output:
  - p: <% ctx().p %>
tasks:
  init:
    action: core.noop
    next:
      - publish:
          - p: old
        do: b
  b:
    action: core.noop
    next:
      - when: <% succeeded() %>
        publish:
          - p: new
        do: a
      - when: <% completed() %>
        publish:
          - q: 1
        do: a
  a:
    action: core.echo message=<% ctx().p %>
    next:
      - when: <% ctx().n < 1 %>
        publish:
          - n: <% ctx().n + 1 %>
        do: b
"""

JOIN_WF = """
version: 1.0
output:
  - p: <% ctx().p %>
tasks:
  init:
    action: core.noop
    next:
      - publish:
          - p: old
        do: b, c
  b:
    action: core.noop
    next:
      - when: <% succeeded() %>
        publish:
          - p: new
        do: a
      - when: <% completed() %>
        publish:
          - q: 1
        do: a
  c:
    action: core.noop
    next:
      - publish:
          - r: 1
        do: a
  a:
    join: all
    action: core.echo message=<% ctx().p %>
"""


def visible(task):
    return {k: v for k, v in task["ctx"].items() if not k.startswith("__")}


def run(name, wf, completion_order=None):
    print("%s:" % name)
    spec = specs.WorkflowSpec(wf)
    assert not spec.inspect(), spec.inspect()
    c = conducting.WorkflowConductor(spec)
    c.request_workflow_status(statuses.RUNNING)
    seen_by_a = []

    while True:
        tasks = c.get_next_tasks()

        if not tasks:
            break

        for t in tasks:
            print("  offered %-4s ctx %-40s input %s" % (t["id"], visible(t), t["actions"][0]["input"]))
            c.update_task_state(t["id"], t["route"], events.ActionExecutionEvent(statuses.RUNNING))

            if t["id"] == "a":
                seen_by_a.append((visible(t).get("p"), t["actions"][0]["input"]))

        ordered = sorted(tasks, key=lambda t: (completion_order or []).index(t["id"])
                         if t["id"] in (completion_order or []) else 0)

        for t in ordered:
            c.update_task_state(t["id"], t["route"], events.ActionExecutionEvent(statuses.SUCCEEDED))
            print("  %s succeeded" % t["id"])

    c.render_workflow_output()
    entry = [t for t in c.workflow_state.sequence if t["id"] == "a"][0]
    print("  contexts :", c.workflow_state.contexts)
    print("  a: ctxs.in %s prev %s" % (entry["ctxs"]["in"], entry["prev"]))
    print("  status %s output %s" % (c.get_workflow_status(), c.get_workflow_output()))
    return seen_by_a, c.get_workflow_output()


violated = False

# Loop target. Task b succeeded, so both of its transitions are taken and both lead to a.
seen, out = run("Loop (a is in a cycle, hence not split into two executions)", LOOP_WF)

if any(p != "new" for p, _ in seen) or out != {"p": "new"}:
    print("  VIOLATION: every transition into a carries p=new (t0 published it, t1 comes from the")
    print("  same task), yet a is rendered with p=%r and the output is %s" % (seen[0][0], out))
    violated = True

# Join target. c (which merely inherited p=old) completes FIRST, b completes LAST, so even the
# known 'inheriting branch arrives last' defect does not apply: the last arrival carries p=new.
seen, out = run("Join (c arrives first, b arrives last)", JOIN_WF, completion_order=["c", "b"])

if any(p != "new" for p, _ in seen) or out != {"p": "new"}:
    print("  VIOLATION: b arrived last and published p=new on its way into the join, yet a is")
    print("  rendered with p=%r and the output is %s" % (seen[0][0], out))
    violated = True

if violated:
    sys.exit(1)

print("no violation observed")
sys.exit(0)
