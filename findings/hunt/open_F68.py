# witness written by a bug-hunt sub-agent (given only the property text); exit 1 = defect present
"""C18 finding 2: the record that request_workflow_rerun() appends for a rerun is not what the rerun
execution sees. A branch that is still in flight when the (failed) workflow is rerun arrives at the
task before the rerun is offered; it is merged into the staged entry, but the record of the rerun
was already written, so the execution runs with a context / predecessors that its record denies,
and its transitions are then decided on the context of the record.

Exit 1 if the violation is observed, 0 if not.
"""
import json
import os
import sys

sys.path.insert(0, os.environ.get("VERIF_REPO", "/repo"))

import orquesta  # noqa: E402
from orquesta import conducting, events, statuses  # noqa: E402
from orquesta.specs import native as specs  # noqa: E402

print("orquesta from", orquesta.__file__)

WF = """
version: 1.0
vars:
  - who: nobody
tasks:
  init:
    action: core.noop
    next:
      - do: fast, slow
  fast:
    action: core.noop
    next:
      - publish: who="fast"
        do: notify
  slow:
    action: core.noop
    next:
      - publish: who="slow"
        do: notify
  notify:
    join: 1
    action: core.echo message=<% ctx().who %>
    next:
      - when: <% succeeded() %>
        publish: notified=<% ctx().who %>
        do: done
  done:
    action: core.noop
"""

spec = specs.WorkflowSpec(WF)
assert not spec.inspect(), spec.inspect()
c = conducting.WorkflowConductor(spec)


def ac(status, result=None):
    return events.ActionExecutionEvent(status, result=result)


def strip(ctx):
    return {k: v for k, v in ctx.items() if not k.startswith("__")}


def offer():
    tasks = c.get_next_tasks()
    print("get_next_tasks ->", [(t["id"], t["route"], t["actions"][0]["input"]) for t in tasks])
    return tasks


def seq():
    return json.loads(json.dumps(c.serialize()["state"]["sequence"]))


c.request_workflow_status(statuses.RUNNING)
for t in offer():
    c.update_task_state(t["id"], t["route"], ac(statuses.RUNNING))
c.update_task_state("init", 0, ac(statuses.SUCCEEDED))
for t in offer():
    c.update_task_state(t["id"], t["route"], ac(statuses.RUNNING))
print("fast succeeds (slow keeps running)")
c.update_task_state("fast", 0, ac(statuses.SUCCEEDED))
for t in offer():
    c.update_task_state(t["id"], t["route"], ac(statuses.RUNNING))
print("notify fails -> workflow", end=" ")
c.update_task_state("notify", 0, ac(statuses.FAILED, result="boom"))
print(c.get_workflow_status())

print("request_workflow_rerun() (slow is still running)")
c.request_workflow_rerun()
before = seq()
rerun_idx = c.workflow_state.tasks["notify__r0"]
print("   appended record #%d: %s" % (rerun_idx, json.dumps(before[rerun_idx])))

print("slow succeeds before the rerun of notify is offered")
c.update_task_state("slow", 0, ac(statuses.SUCCEEDED))

(t,) = offer()
seen_ctx, seen_input = strip(t["ctx"]), t["actions"][0]["input"]
c.update_task_state("notify", 0, ac(statuses.RUNNING))
after = seq()
idx = c.workflow_state.tasks["notify__r0"]
rec = after[idx]
rec_ctx = strip(c.get_task_context(rec["ctxs"]["in"]))
print("notify started: record #%d (the one the rerun appended: %s) ctxs.in=%s prev=%s" % (idx, idx == rerun_idx, rec["ctxs"]["in"], rec["prev"]))
print("   context of the record       : %s" % rec_ctx)
print("   context given to the action : %s  input=%s" % (seen_ctx, seen_input))

c.update_task_state("notify", 0, ac(statuses.SUCCEEDED))
published = c.serialize()["state"]["contexts"][-1]
print("notify succeeded; published on its transition: %s" % published)
print("records of notify:", [(i, r.get("status"), r["ctxs"]["in"], r["prev"]) for i, r in enumerate(seq()) if r["id"] == "notify"])

violated = False
if seen_ctx != rec_ctx:
    print("VIOLATION: the execution ran with %s, its record says it saw %s (predecessors %s)" % (seen_ctx, rec_ctx, rec["prev"]))
    violated = True
if published.get("notified") != seen_input["message"]:
    print("VIOLATION: the action ran with who=%s, the transition published notified=%s" % (seen_input["message"], published.get("notified")))
    violated = True

sys.exit(1 if violated else 0)
