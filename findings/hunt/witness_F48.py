# witness written by a bug-hunt sub-agent (given only the property text); exit 1 = defect present
"""C03 finding 2: a with-items task that is being retried and whose re-offered item is acknowledged
as "pending" stays in "retrying" forever. The workflow reports running, no action is in flight
and get_next_tasks() offers nothing.

Exit 1 if the violation is observed, 0 otherwise.
"""
import os
import sys

ROOT = os.environ.get("VERIF_REPO", "/repo")
sys.path.insert(0, ROOT)

import orquesta  # noqa: E402
from orquesta import conducting, events, statuses  # noqa: E402
from orquesta.specs import native as specs  # noqa: E402

print("orquesta loaded from", orquesta.__file__)

WF = """
version: 1.0
vars:
  - xs: [1]
tasks:
  t1:
    with: <% ctx(xs) %>
    action: core.ask question=<% item() %>
    retry:
      count: 1
    next:
      - when: <% succeeded() %>
        do: t2
  t2:
    action: core.noop
"""

IE = events.TaskItemActionExecutionEvent
RESTING = [statuses.SUCCEEDED, statuses.FAILED, statuses.CANCELED, statuses.PAUSED]


def show(c, what):
    seq = [(t["id"], t.get("status")) for t in c.workflow_state.sequence]
    print("  %-42s workflow=%-9s tasks=%s" % (what, c.get_workflow_status(), seq))


def offered(c):
    return [(t["id"], [a.get("item_id") for a in t["actions"]]) for t in c.get_next_tasks()]


def run(first_ack, retry_ack):
    print("=== first attempt acknowledged %r, retried attempt acknowledged %r" % (first_ack, retry_ack))
    spec = specs.WorkflowSpec(WF)
    assert not spec.inspect(), spec.inspect()
    c = conducting.WorkflowConductor(spec)
    c.request_workflow_status(statuses.RUNNING)
    print("  get_next_tasks ->", offered(c))
    c.update_task_state("t1", 0, IE(0, first_ack))
    show(c, "t1[0] acknowledged %s" % first_ack)
    if c.get_workflow_status() == statuses.PAUSED:
        c.request_workflow_status(statuses.RUNNING)
        show(c, "(workflow resumed by the operator)")
    c.update_task_state("t1", 0, IE(0, statuses.FAILED, result="boom"))
    show(c, "t1[0] reports failed -> task is retried")
    nxt = offered(c)
    print("  get_next_tasks ->", nxt)
    assert nxt == [("t1", [0])], nxt
    c.update_task_state("t1", 0, IE(0, retry_ack))
    show(c, "t1[0] acknowledged %s" % retry_ack)
    c.update_task_state("t1", 0, IE(0, statuses.SUCCEEDED, result="fine"))
    show(c, "t1[0] reports succeeded")
    nxt = offered(c)
    status = c.get_workflow_status()
    print("  in flight at the provider: nothing; get_next_tasks ->", nxt, "; status:", status)
    stuck = not nxt and status not in RESTING
    print("  -> %s" % ("VIOLATION: quiescent but status is %r" % status if stuck else "ok"))
    return stuck


# Control: the retried item is acknowledged as running -> t1 succeeds, t2 is offered.
control = run(statuses.RUNNING, statuses.RUNNING)
# Control: the item of a task that is NOT being retried is acknowledged as pending -> handled.
# (the workflow pauses on the pending item, the operator resumes it, the item fails, the task
# is retried ...) and then the retried item is acknowledged as running -> fine.
control2 = run(statuses.PENDING, statuses.RUNNING)
# Violation: the retried item is acknowledged as pending (i.e. the action is an inquiry).
bad = run(statuses.RUNNING, statuses.PENDING)

sys.exit(1 if bad else 0)
