# witness written by a bug-hunt sub-agent (given only the property text); exit 1 = defect present
#!/usr/bin/env python
# C11 finding 1: an expression failure in a task transition (when / publish) escapes
# update_task_state() as InvalidWorkflowStatusTransition when the workflow is already CANCELED.
import os
import sys
import traceback

ROOT = os.environ.get("VERIF_REPO", "/repo")
sys.path.insert(0, ROOT)

import orquesta  # noqa: E402
from orquesta import conducting, events, statuses  # noqa: E402
from orquesta.specs import native as specs  # noqa: E402

print("orquesta loaded from", orquesta.__file__)

WF_WHEN = """
version: 1.0
tasks:
  approve:
    action: core.ask
    next:
      - when: <% result().response.approved %>
        do: deploy
      - when: <% not succeeded() %>
        publish:
          - reason: not approved
        do: notify
  deploy:
    action: core.noop
  notify:
    action: core.noop
"""

WF_PUBLISH = """
version: 1.0
tasks:
  approve:
    action: core.ask
    next:
      - publish:
          - who: "{{ result().response.user }}"
        do: deploy
  deploy:
    action: core.noop
"""


def drive(title, wf_def, pre_request, final_status, final_result):
    print("\n=== %s ===" % title)
    spec = specs.WorkflowSpec(wf_def)
    assert not spec.inspect(), spec.inspect()
    c = conducting.WorkflowConductor(spec)
    c.request_workflow_status(statuses.RUNNING)
    offered = c.get_next_tasks()
    print("offered:", [t["id"] for t in offered])
    # The provider acknowledges the offered task at once with the starting status "pending"
    # (an inquiry that waits for a human).
    c.update_task_state("approve", 0, events.ActionExecutionEvent(statuses.PENDING))
    print("after ack(pending): workflow =", c.get_workflow_status())

    if pre_request:
        c.request_workflow_status(pre_request)
        print("after request(%s): workflow = %s" % (pre_request, c.get_workflow_status()))

    escaped = None

    try:
        c.update_task_state(
            "approve", 0, events.ActionExecutionEvent(final_status, result=final_result)
        )
    except Exception as e:  # noqa
        escaped = e
        print("update_task_state(approve, %s) RAISED %s: %s" % (final_status, type(e).__name__, e))
        traceback.print_exception(type(e), e, e.__traceback__, chain=False, file=sys.stdout)

    entry = c.get_task_state_entry("approve", 0)
    print("workflow status  :", c.get_workflow_status())
    print("errors           :", [(e.get("task_transition_id"), e["message"][:70]) for e in c.errors])
    print("task entry       : status=%s next=%s term=%s" % (
        entry.get("status"), entry.get("next"), entry.get("term")))
    print("staged           :", [(s["id"], s["ready"]) for s in c.workflow_state.staged])
    return escaped, c


violations = 0

# Control: the very same failure while the workflow is merely paused is contained.
esc, c = drive(
    "control: pending task completes in a PAUSED workflow, failing `when`",
    WF_WHEN, None, statuses.SUCCEEDED, {"oops": 1},
)
assert esc is None and c.get_workflow_status() == statuses.FAILED and c.errors

# 1a. pending task, workflow canceled (dormant -> canceled at once), the inquiry is answered late.
esc, c = drive(
    "1a: workflow canceled while the task is pending; task reports succeeded; failing `when`",
    WF_WHEN, statuses.CANCELED, statuses.SUCCEEDED, {"oops": 1},
)
violations += 1 if esc is not None else 0

# 1b. the provider cancels the pending action because of the cancellation: result is None.
esc, c = drive(
    "1b: workflow canceled while the task is pending; task reports canceled (no result)",
    WF_WHEN, statuses.CANCELED, statuses.CANCELED, None,
)
violations += 1 if esc is not None else 0

# 1c. same with a publish that fails (Jinja).
esc, c = drive(
    "1c: as 1a but the failing expression is in `publish` (Jinja)",
    WF_PUBLISH, statuses.CANCELED, statuses.SUCCEEDED, {"response": {}},
)
violations += 1 if esc is not None else 0

print("\nviolations observed:", violations)
sys.exit(1 if violations else 0)
