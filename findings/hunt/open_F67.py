# witness written by a bug-hunt sub-agent (given only the property text); exit 1 = defect present
"""C07 finding 4: the unreachable-join error outlives the rerun that satisfies the join.

Branch b completes without taking its transition into the join, the workflow rightly fails with
an unreachable-join error. The operator reruns b, this time it transitions into the join, the
join runs once and the workflow succeeds - with conductor.errors still saying that the join is
partially satisfied but unreachable.
"""
import os
import sys

ROOT = os.environ.get("VERIF_REPO", "/repo")
sys.path.insert(0, ROOT)

import orquesta  # noqa: E402
from orquesta import conducting, events, requests, statuses  # noqa: E402
from orquesta.specs import native as specs  # noqa: E402

print(orquesta.__file__)

WF = """
version: 1.0
tasks:
  a:
    action: core.noop
    next:
      - when: <% succeeded() %>
        do: j
  b:
    action: core.noop
    next:
      - when: <% succeeded() and result().go %>
        do: j
  j:
    join: all
    action: core.noop
"""

spec = specs.WorkflowSpec(WF)
assert not spec.inspect(), spec.inspect()
c = conducting.WorkflowConductor(spec)
c.request_workflow_status(statuses.RUNNING)


def offer():
    tasks = [(t["id"], t["route"]) for t in c.get_next_tasks()]
    print("get_next_tasks ->", tasks)
    for tid, route in tasks:
        c.update_task_state(tid, route, events.ActionExecutionEvent(statuses.RUNNING))
    return tasks


def report(tid, status=statuses.SUCCEEDED, result=None):
    c.update_task_state(tid, 0, events.ActionExecutionEvent(status, result=result))
    print("report %s %s %s -> workflow %s" % (tid, status, result, c.get_workflow_status()))


offer()  # a, b
report("a")
report("b", result={"go": False})
print("errors:", c.errors)

c.request_workflow_rerun([requests.TaskRerunRequest.new("b", 0)])
print("rerun [b] -> workflow", c.get_workflow_status())
offer()  # b
report("b", result={"go": True})
offer()  # j
report("j")
offer()

status = c.get_workflow_status()
j = c.get_task_state_entry("j", 0)
unreachable = [e for e in c.errors if "UnreachableJoinError" in e["message"]]
print("final workflow status:", status)
print("join record:", j and j.get("status"))
print("errors:", c.errors)

violated = bool(status == statuses.SUCCEEDED and j and unreachable)
if violated:
    print("VIOLATION: workflow succeeded and the join ran, errors still call the join unreachable")

sys.exit(1 if violated else 0)
