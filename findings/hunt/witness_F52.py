# witness written by a bug-hunt sub-agent (given only the property text); exit 1 = defect present
"""C04 finding 1: a late item report for a with-items task raises TypeError after the workflow
was canceled (the staged entry of the task was dropped although an item was still in flight).

Run: cd /repo && /venv/bin/python _out/finding1.py   (exit 1 = violation observed)
"""
import os
import sys
import traceback

sys.path.insert(0, os.environ.get("VERIF_REPO", "/repo"))

import orquesta  # noqa: E402
from orquesta import conducting, events, statuses  # noqa: E402
from orquesta.specs import native as specs  # noqa: E402

print("orquesta module:", orquesta.__file__)

WF = """
version: 1.0
tasks:
  t1:
    with: <% list(1, 2) %>
    action: core.echo message=<% item() %>
    next:
      - when: <% succeeded() %>
        do: t2
  t2:
    action: core.noop
"""

Item = events.TaskItemActionExecutionEvent
violations = []


def show(c, label):
    entry = c.get_task_state_entry("t1", 0)
    staged = [(s["id"], [i["status"] for i in s.get("items", [])]) for s in c.workflow_state.staged]
    print(
        "  %-34s workflow=%-9s t1=%-9s staged=%s"
        % (label, c.get_workflow_status(), entry and entry.get("status"), staged)
    )


def start():
    spec = specs.WorkflowSpec(WF)
    assert not spec.inspect()
    c = conducting.WorkflowConductor(spec)
    c.request_workflow_status(statuses.RUNNING)
    tasks = c.get_next_tasks()
    print("  get_next_tasks ->", [(t["id"], [a["item_id"] for a in t["actions"]]) for t in tasks])
    return c


def late(c, label, event):
    before = c.get_workflow_status()
    try:
        c.update_task_state("t1", 0, event)
        show(c, label)
        print("  -> absorbed without error")
    except Exception as e:
        tb = traceback.extract_tb(e.__traceback__)[-1]
        print("  %s RAISED %s: %s (%s:%s)" % (label, type(e).__name__, e, tb.filename, tb.lineno))
        violations.append(label)
    assert c.get_workflow_status() == before
    print("  get_next_tasks ->", c.get_next_tasks())


print("\nHistory A: pause the workflow, one item pauses, cancel the workflow, the other item is")
print("canceled (workflow becomes canceled), then the paused item reports canceled as well.")
c = start()
c.update_task_state("t1", 0, Item(0, statuses.RUNNING))
c.update_task_state("t1", 0, Item(1, statuses.RUNNING))
show(c, "both items acknowledged running")
c.request_workflow_status(statuses.PAUSING)
show(c, "request pausing")
c.update_task_state("t1", 0, Item(0, statuses.PAUSED))
show(c, "item 0 reports paused")
c.request_workflow_status(statuses.CANCELING)
show(c, "request canceling")
c.update_task_state("t1", 0, Item(1, statuses.CANCELED))
show(c, "item 1 reports canceled")
assert c.get_workflow_status() == statuses.CANCELED
print("  workflow is terminal (canceled); item 0 is still in flight (paused)")
late(c, "item 0 reports canceled (late)", Item(0, statuses.CANCELED))

print("\nHistory B: no pause request; item 1 is acknowledged as pending (e.g. an inquiry), the")
print("workflow is canceled, item 0 is canceled, then the pending item completes.")
c = start()
c.update_task_state("t1", 0, Item(0, statuses.RUNNING))
c.update_task_state("t1", 0, Item(1, statuses.PENDING))
show(c, "item 0 running, item 1 pending")
c.request_workflow_status(statuses.CANCELING)
show(c, "request canceling")
c.update_task_state("t1", 0, Item(0, statuses.CANCELED))
show(c, "item 0 reports canceled")
assert c.get_workflow_status() == statuses.CANCELED
late(c, "item 1 reports succeeded (late)", Item(1, statuses.SUCCEEDED, result="ok"))

print("\nHistory C: as A, but the paused item is resumed and reports running before it completes.")
c = start()
c.update_task_state("t1", 0, Item(0, statuses.RUNNING))
c.update_task_state("t1", 0, Item(1, statuses.RUNNING))
c.request_workflow_status(statuses.PAUSING)
c.update_task_state("t1", 0, Item(0, statuses.PAUSED))
c.request_workflow_status(statuses.CANCELING)
c.update_task_state("t1", 0, Item(1, statuses.CANCELED))
show(c, "item 1 reports canceled")
assert c.get_workflow_status() == statuses.CANCELED
late(c, "item 0 reports running (late)", Item(0, statuses.RUNNING))

print()
if violations:
    print("VIOLATION of C04 (late reports are absorbed without error):", violations)
    sys.exit(1)

print("No violation observed.")
sys.exit(0)
