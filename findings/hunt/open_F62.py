# witness written by a bug-hunt sub-agent (given only the property text); exit 1 = defect present
#!/usr/bin/env python
"""C20 finding 3: a number written with an exponent (or any spelling other than plain decimal)
is cut to the prefix the regex recognises; the rest of the token is dropped without any error.

max_pause=1.5e+3 offers {"max_pause": 1.5}; the long form max_pause: 1.5e+3 offers 1500.0.
"""
import os
import sys

ROOT = os.environ.get("VERIF_REPO", "/repo")
sys.path.insert(0, ROOT)

import orquesta  # noqa: E402
from orquesta import conducting, events, statuses  # noqa: E402
from orquesta.specs import native as specs  # noqa: E402

print("orquesta loaded from", orquesta.__file__)

SHORT_T = """
version: 1.0
tasks:
  task1:
    action: core.pause max_pause=%(n)s
    next:
      - when: <%% succeeded() %%>
        publish: n=%(n)s
output:
  - n: <%% ctx().n %%>
"""

LONG_T = """
version: 1.0
tasks:
  task1:
    action: core.pause
    input:
      max_pause: %(n)s
    next:
      - when: <%% succeeded() %%>
        publish:
          - n: %(n)s
        do: continue
output:
  - n: <%% ctx().n %%>
"""

# Numbers as YAML (long form) and JSON write them. The first ones are plain decimal
# numbers and serve as a control; the others are the same numbers in other spellings.
CONTROL = ["1500", "-12", "0.0025", "12345678901234567890"]
NUMBERS = ["1.5e+3", "2.5E-3", "-6.02e+23", "0x1F", "1_000", "+5", ".5"]
def conduct(label, definition):
    print("--- %s" % label)
    spec = specs.WorkflowSpec(definition)
    obs = {"inspect": spec.inspect()}
    print("inspect():", obs["inspect"])
    conductor = conducting.WorkflowConductor(spec)
    obs["graph"] = conductor.graph.serialize()
    conductor.request_workflow_status(statuses.RUNNING)
    obs["offered"] = []

    while True:
        tasks = conductor.get_next_tasks()
        if not tasks:
            break
        for t in tasks:
            print("get_next_tasks() offers %s: %s" % (t["id"], t["actions"]))
            obs["offered"].append((t["id"], t["route"], t["actions"]))
            ev = events.ActionExecutionEvent(statuses.RUNNING)
            conductor.update_task_state(t["id"], t["route"], ev)
        for t in tasks:
            ev = events.ActionExecutionEvent(statuses.SUCCEEDED, result="done")
            conductor.update_task_state(t["id"], t["route"], ev)

    conductor.render_workflow_output()
    obs["status"] = conductor.get_workflow_status()
    obs["output"] = conductor.get_workflow_output()
    print("status:", obs["status"], "output:", obs["output"], "errors:", conductor.errors)
    return obs


violated = False

for n in CONTROL + NUMBERS:
    print("===== number %s" % n)
    a = conduct("shorthand  name=%s" % n, SHORT_T % {"n": n})
    b = conduct("long form  name: %s" % n, LONG_T % {"n": n})
    for key in ("inspect", "graph", "offered", "status", "output"):
        same = a[key] == b[key]
        if not same:
            print("%-8s DIFFERENT" % key)
            print("   shorthand:", a[key])
            print("   long form:", b[key])
            violated = True
    if all(a[k] == b[k] for k in a):
        print("same in both notations")

print("VIOLATION" if violated else "no violation")
sys.exit(1 if violated else 0)
