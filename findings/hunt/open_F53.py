# witness written by a bug-hunt sub-agent (given only the property text); exit 1 = defect present
#!/usr/bin/env python
"""C02 finding 2: the workflow reports succeeded although a task failure was never handled.

Two parallel branches fail (the second one reports after the workflow already turned failed,
which is normal: the workflow fails fast and lets the other actions finish). The operator reruns
only ONE of the failed tasks (request_workflow_rerun with an explicit task request). When that
branch completes, the workflow reports succeeded although the latest execution of the other
task is failed and no transition handled that failure.
"""
import os
import sys

ROOT = os.environ.get("VERIF_REPO", "/repo")
sys.path.insert(0, ROOT)

import orquesta  # noqa: E402
from orquesta import conducting, events, requests, statuses  # noqa: E402
from orquesta.specs import native as specs  # noqa: E402

print("orquesta from", orquesta.__file__)

WF = """
version: 1.0
tasks:
  a:
    action: core.noop
    next:
      - when: <% succeeded() %>
        do: c
  b:
    action: core.noop
    next:
      - when: <% succeeded() %>
        do: d
  c:
    action: core.noop
  d:
    action: core.noop
"""


def show(c, what):
    tasks = [(t["id"], t.get("status", "-")) for _, t in c.workflow_state.get_tasks()]
    print("%-34s -> workflow %-9s latest task records %s" % (what, c.get_workflow_status(), tasks))


def main():
    spec = specs.WorkflowSpec(WF)
    assert not spec.inspect()
    c = conducting.WorkflowConductor(spec)
    c.request_workflow_status(statuses.RUNNING)

    print("offered:", [t["id"] for t in c.get_next_tasks()])
    c.update_task_state("a", 0, events.ActionExecutionEvent(statuses.RUNNING))
    c.update_task_state("b", 0, events.ActionExecutionEvent(statuses.RUNNING))
    show(c, "a, b acknowledged running")
    c.update_task_state("a", 0, events.ActionExecutionEvent(statuses.FAILED, result="boom"))
    show(c, "a reported failed")
    c.update_task_state("b", 0, events.ActionExecutionEvent(statuses.FAILED, result="boom"))
    show(c, "b reported failed")

    c = conducting.WorkflowConductor.deserialize(c.serialize())
    c.request_workflow_rerun([requests.TaskRerunRequest.new("a", 0)])
    show(c, "request_workflow_rerun([a])")

    print("offered:", [t["id"] for t in c.get_next_tasks()])
    c.update_task_state("a", 0, events.ActionExecutionEvent(statuses.RUNNING))
    c.update_task_state("a", 0, events.ActionExecutionEvent(statuses.SUCCEEDED))
    show(c, "a: running, succeeded")
    print("offered:", [t["id"] for t in c.get_next_tasks()])
    c.update_task_state("c", 0, events.ActionExecutionEvent(statuses.RUNNING))
    c.update_task_state("c", 0, events.ActionExecutionEvent(statuses.SUCCEEDED))
    show(c, "c: running, succeeded")
    c.render_workflow_output()

    status = c.get_workflow_status()
    unhandled = [
        t["id"]
        for _, t in c.workflow_state.get_tasks()
        if t.get("status") in statuses.ABENDED_STATUSES and not any(t["next"].values())
    ]
    print("task failures without a matching transition (latest executions):", unhandled)
    print("errors kept by the conductor:", c.errors)
    violated = status == statuses.SUCCEEDED and bool(unhandled)
    print("expected failed (b's failure is unhandled); observed %s => %s" % (
        status, "VIOLATION" if violated else "ok"))
    return 1 if violated else 0


if __name__ == "__main__":
    sys.exit(main())
