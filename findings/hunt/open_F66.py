# witness written by a bug-hunt sub-agent (given only the property text); exit 1 = defect present
"""C07 finding 3: a rerun from above a split leaves the join of the abandoned route behind.

t1 and t2 both lead to the split task s, so s and the tasks after it (x, y, join j) run once on
route 1 (via t1) and once on route 2 (via t2). On route 2, x succeeds (j|2 is staged, waiting) and
y fails, which fails the workflow. The operator reruns t2, i.e. the whole branch. The rerun does
not re-execute the branch on route 2: a new route 3 with the very same route details is created,
everything on it succeeds and the join runs there - but j|2 is still staged and waiting for the
y|2 that is never run again, and the workflow ends FAILED with an unreachable-join error.
"""
import os
import sys

ROOT = os.environ.get("VERIF_REPO", "/repo")
sys.path.insert(0, ROOT)

import orquesta  # noqa: E402
from orquesta import conducting, events, requests, statuses  # noqa: E402
from orquesta.specs import native as specs  # noqa: E402

print(orquesta.__file__)

WF = """
version: 1.0
tasks:
  t1:
    action: core.noop
    next:
      - do: s
  t2:
    action: core.noop
    next:
      - do: s
  s:
    action: core.noop
    next:
      - do: [x, y]
  x:
    action: core.noop
    next:
      - when: <% succeeded() %>
        do: j
  y:
    action: core.noop
    next:
      - when: <% succeeded() %>
        do: j
  j:
    join: all
    action: core.noop
"""

spec = specs.WorkflowSpec(WF)
assert not spec.inspect(), spec.inspect()
c = conducting.WorkflowConductor(spec)
c.request_workflow_status(statuses.RUNNING)


def offer():
    tasks = [(t["id"], t["route"]) for t in c.get_next_tasks()]
    print("get_next_tasks ->", tasks)
    for tid, route in tasks:
        c.update_task_state(tid, route, events.ActionExecutionEvent(statuses.RUNNING))
    return tasks


def report(tid, route, status=statuses.SUCCEEDED):
    c.update_task_state(tid, route, events.ActionExecutionEvent(status))
    print("report %s|%s %s -> workflow %s" % (tid, route, status, c.get_workflow_status()))


offer()  # t1, t2
report("t1", 0)
report("t2", 0)
offer()  # s|1, s|2
report("s", 1)
report("s", 2)
offer()  # x|1, y|1, x|2, y|2
report("x", 1)
report("y", 1)
report("x", 2)
report("y", 2, statuses.FAILED)
print("routes:", c.workflow_state.routes)

c.request_workflow_rerun([requests.TaskRerunRequest.new("t2", 0)])
print("rerun [t2] -> workflow", c.get_workflow_status())

while True:
    tasks = offer()
    if not tasks:
        break
    for tid, route in tasks:
        report(tid, route)

status = c.get_workflow_status()
routes = c.workflow_state.routes
unreachable = [e for e in c.errors if "UnreachableJoinError" in e["message"]]
failed_after_rerun = [
    (t["id"], t["route"])
    for i, t in enumerate(c.workflow_state.sequence)
    if i >= 8 and t.get("status") != statuses.SUCCEEDED
]
print("final workflow status:", status)
print("routes:", routes)
print("errors:", c.errors)
print("tasks that did not succeed after the rerun request:", failed_after_rerun)

violated = False
if len(routes) != len(set(map(tuple, routes))):
    print("VIOLATION: the rerun duplicated a route instead of running on the same route")
    violated = True
if status == statuses.FAILED and unreachable and not failed_after_rerun:
    print("VIOLATION: every task of the rerun succeeded and the join ran, yet the workflow")
    print("           fails with", unreachable[0]["message"])
    violated = True

sys.exit(1 if violated else 0)
