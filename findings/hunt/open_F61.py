# witness written by a bug-hunt sub-agent (given only the property text); exit 1 = defect present
#!/usr/bin/env python
"""C20 finding 2: an action given as an expression plus inline parameters is cut at its first blank.

"<% ctx().act %> message=..." must denote action "<% ctx().act %>" with input {message: ...}.
TaskSpec.__init__ takes everything before the first blank as the action name, i.e. "<%".
"""
import os
import sys

ROOT = os.environ.get("VERIF_REPO", "/repo")
sys.path.insert(0, ROOT)

import orquesta  # noqa: E402
from orquesta import conducting, events, statuses  # noqa: E402
from orquesta.specs import native as specs  # noqa: E402

print("orquesta loaded from", orquesta.__file__)

SHORT = """
version: 1.0
input:
  - act
tasks:
  task1:
    action: <% ctx().act %> message="hi"
"""

LONG = """
version: 1.0
input:
  - act
tasks:
  task1:
    action: <% ctx().act %>
    input:
      message: hi
"""

# Same pair with Jinja.
SHORT_J = SHORT.replace('<% ctx().act %> message="hi"', "\"{{ ctx().act }} message='hi'\"")
LONG_J = LONG.replace("<% ctx().act %>", '"{{ ctx().act }}"')

# Same pair, but the action expression refers to a variable that does not exist:
# inspection must fail for both or pass for both.
SHORT_U = SHORT.replace("ctx().act", "ctx().nosuchvar")
LONG_U = LONG.replace("ctx().act", "ctx().nosuchvar")

# Variant: a pure long form whose action expression merely contains name="value"
# (YAQL equality written without blanks) is taken for a shorthand.
LONG_EQ = """
version: 1.0
input:
  - os
tasks:
  task1:
    action: <% switch(ctx().os="linux" => "core.local", true => "core.winrm") %>
    input:
      cmd: uptime
"""
LONG_EQ_SPACED = LONG_EQ.replace('ctx().os="linux"', 'ctx().os = "linux"')
def conduct(label, definition):
    print("--- %s" % label)
    spec = specs.WorkflowSpec(definition)
    obs = {"inspect": spec.inspect()}
    print("inspect():", obs["inspect"])
    conductor = conducting.WorkflowConductor(spec, inputs=INPUTS)
    obs["graph"] = conductor.graph.serialize()
    conductor.request_workflow_status(statuses.RUNNING)
    obs["offered"] = []

    while True:
        tasks = conductor.get_next_tasks()
        if not tasks:
            break
        for t in tasks:
            print("get_next_tasks() offers %s: %s" % (t["id"], t["actions"]))
            obs["offered"].append((t["id"], t["route"], t["actions"]))
            ev = events.ActionExecutionEvent(statuses.RUNNING)
            conductor.update_task_state(t["id"], t["route"], ev)
        for t in tasks:
            ev = events.ActionExecutionEvent(statuses.SUCCEEDED, result="done")
            conductor.update_task_state(t["id"], t["route"], ev)

    conductor.render_workflow_output()
    obs["status"] = conductor.get_workflow_status()
    obs["output"] = conductor.get_workflow_output()
    print("status:", obs["status"], "output:", obs["output"], "errors:", conductor.errors)
    return obs


INPUTS = {"act": "core.echo", "os": "linux"}
violated = False


def compare(title, short, long_, keys=("inspect", "graph", "offered", "status", "output")):
    global violated
    print("===== %s" % title)
    a = conduct("first", short)
    b = conduct("second", long_)
    for key in keys:
        same = a[key] == b[key]
        print("%-8s %s" % (key, "same" if same else "DIFFERENT"))
        if not same:
            print("   first :", a[key])
            print("   second:", b[key])
            violated = True


def strip_paths(errors):
    return {k: sorted(e["message"] for e in v) for k, v in errors.items()}


compare("YAQL action expression: shorthand vs long form", SHORT, LONG)
compare("Jinja action expression: shorthand vs long form", SHORT_J, LONG_J)

print("===== undefined variable in the action expression: inspect() of both notations")
ia = strip_paths(specs.WorkflowSpec(SHORT_U).inspect())
ib = strip_paths(specs.WorkflowSpec(LONG_U).inspect())
print("shorthand inspect():", ia)
print("long form inspect():", ib)
if ia != ib:
    print("inspect  DIFFERENT")
    violated = True

compare(
    'long form whose expression contains os="linux" vs the same with blanks around =',
    LONG_EQ,
    LONG_EQ_SPACED,
    keys=("offered",),
)

print("VIOLATION" if violated else "no violation")
sys.exit(1 if violated else 0)
