# witness written by a bug-hunt sub-agent (given only the property text); exit 1 = defect present
#!/usr/bin/env python
"""C19 finding 1: a YAQL expression that yields a key view / set (dict.keys(), toSet(), set
operators) is handed back by orquesta as a Python ``set``. The set is rendered into action
inputs, stored in the workflow context and in the workflow output. Its iteration order depends
on PYTHONHASHSEED, so replaying the very same history in another process gives different offered
actions, a different item order of a with-items task, different persisted state and different
output. In addition conductor.serialize() is no longer JSON serializable.

Run:  cd /repo && /venv/bin/python _out/finding1.py
Exit code 1 = violation observed, 0 = not observed.
"""
import json
import os
import subprocess
import sys

ROOT = os.environ.get("VERIF_REPO", "/repo")
sys.path.insert(0, ROOT)

WF = """
version: 1.0
input:
  - inventory
tasks:
  plan:
    action: core.noop
    next:
      - when: <% succeeded() %>
        publish:
          - hosts: <% ctx().inventory.keys() %>
        do: notify
  notify:
    action: core.echo message="deploying to <% ctx().hosts %>"
    next:
      - do: deploy
  deploy:
    with:
      items: <% ctx().hosts.toList() %>
      concurrency: 2
    action: core.remote host=<% item() %>
output:
  - hosts: <% ctx().hosts %>
  - summary: "deployed to <% ctx().inventory.keys() %>"
"""

INVENTORY = {
    "web01": "10.0.0.1",
    "web02": "10.0.0.2",
    "db01": "10.0.1.1",
    "cache01": "10.0.2.1",
    "lb01": "10.0.3.1",
}


def child():
    import orquesta
    from orquesta import conducting, events, statuses
    from orquesta.specs import native as specs

    obs = []

    def note(label, value):
        # A set is written out in its iteration order, which is what any provider that
        # persists or ships the value (list(value), str(value), a json "default" hook) gets.
        obs.append([label, json.loads(json.dumps(value, default=lambda o: list(o)))])

    note("orquesta", orquesta.__file__)
    spec = specs.WorkflowSpec(WF)
    note("inspect", spec.inspect())
    c = conducting.WorkflowConductor(spec, inputs={"inventory": INVENTORY})
    c.request_workflow_status(statuses.RUNNING)

    def offer():
        tasks = c.get_next_tasks()
        note("offered", [[t["id"], t["route"], t["actions"]] for t in tasks])
        return tasks

    def run_plain(task_id):
        offer()
        c.update_task_state(task_id, 0, events.ActionExecutionEvent(statuses.RUNNING))
        c.update_task_state(task_id, 0, events.ActionExecutionEvent(statuses.SUCCEEDED))

    run_plain("plan")
    note("types in context", [type(v).__name__ for v in c.workflow_state.contexts[1].values()])
    try:
        json.dumps(c.serialize())
        note("json.dumps(serialize())", "ok")
    except TypeError as e:
        note("json.dumps(serialize())", "TypeError: %s" % e)
    note("state.contexts", c.serialize()["state"]["contexts"])
    run_plain("notify")

    acc = [None] * len(INVENTORY)
    rounds = 0
    while c.get_workflow_status() == statuses.RUNNING and rounds < 10:
        rounds += 1
        tasks = offer()
        for t in tasks:
            for a in t["actions"]:
                ev = events.TaskItemActionExecutionEvent(a["item_id"], statuses.RUNNING)
                c.update_task_state(t["id"], t["route"], ev)
        for t in tasks:
            for a in t["actions"]:
                acc[a["item_id"]] = "done " + a["input"]["host"]
                ev = events.TaskItemActionExecutionEvent(
                    a["item_id"], statuses.SUCCEEDED, result=acc[a["item_id"]],
                    accumulated_result=list(acc))
                c.update_task_state(t["id"], t["route"], ev)

    note("workflow status", c.get_workflow_status())
    c.render_workflow_output()
    note("output", c.get_workflow_output())
    note("errors", c.errors)
    print(json.dumps(obs))


def main():
    runs = {}
    for label, seed in [("A", "1"), ("A again", "1"), ("B", "2"), ("C", "3"), ("D", "4")]:
        env = dict(os.environ, PYTHONHASHSEED=seed)
        out = subprocess.check_output([sys.executable, os.path.abspath(__file__), "--child"], env=env)
        runs[label] = (seed, json.loads(out.decode().strip().splitlines()[-1]))

    ref_seed, ref = runs["A"]
    print("=== the history, replayed with PYTHONHASHSEED=%s ===" % ref_seed)
    for label, value in ref:
        print("%-26s %s" % (label, json.dumps(value)))

    violated = False
    for label, value in ref:
        if label == "json.dumps(serialize())" and value != "ok":
            print("\nVIOLATION (persisted state): conductor.serialize() is not JSON: %s" % value)
            violated = True

    for name in ["A again", "B", "C", "D"]:
        seed, obs = runs[name]
        diffs = [(a[0], a[1], b[1]) for a, b in zip(ref, obs) if a != b]
        print("\n=== same definition, inputs and events, PYTHONHASHSEED=%s: %d observation(s) differ ==="
              % (seed, len(diffs)))
        for label, x, y in diffs:
            print("  %s\n     seed %s: %s\n     seed %s: %s" % (label, ref_seed, json.dumps(x), seed, json.dumps(y)))
        if diffs and seed != ref_seed:
            violated = True
        if diffs and seed == ref_seed:
            print("  (unexpected: differs even with the same hash seed)")
            violated = True

    print("\nRESULT: %s" % ("VIOLATION of C19 observed (offered actions / item order / persisted "
                            "state / output depend on the hash seed)" if violated else "no violation observed"))
    return 1 if violated else 0


if __name__ == "__main__":
    if "--child" in sys.argv:
        child()
    else:
        sys.exit(main())
