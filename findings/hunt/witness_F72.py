# witness written by a bug-hunt sub-agent (given only the property text); exit 1 = defect present
#!/usr/bin/env python
# C15 / finding 4: an accepted definition whose Jinja expression yields a value that is not plain
# JSON data (dict.keys() / .values() / .items(), a generator nested in a dict or list) makes the
# engine raise an internal TypeError (serialize(), render_workflow_output()) once that value is in
# the context. The YAQL spelling of the same expression is executed without any problem.
import os
import sys
import traceback

ROOT = os.environ.get("VERIF_REPO", "/repo")
sys.path.insert(0, ROOT)

import logging

logging.disable(logging.CRITICAL)

import orquesta
from orquesta import conducting, events, statuses
from orquesta.specs import native as specs

print("orquesta from", orquesta.__file__)

WF = """
version: 1.0
vars:
  - settings: {region: eu, tier: gold}
  - vms: [{name: a}, {name: b}]
tasks:
  collect:
    action: core.noop
    next:
      - when: <%% succeeded() %%>
        publish:
          - names: %(expr)s
        do: report
  report:
    action: core.echo
    input:
      message: <%% ctx().names %%>
output:
  - names: <%% ctx().names %%>
"""

CASES = [
    ("control: yaql keys()", "<% ctx(settings).keys() %>"),
    ("control: jinja with |list", "\"{{ ctx('settings').keys() | list }}\""),
    ("jinja keys()", "\"{{ ctx('settings').keys() }}\""),
    ("jinja values()", "\"{{ ctx('settings').values() }}\""),
    ("jinja items()", "\"{{ ctx('settings').items() }}\""),
    ("jinja map() nested in a dict", "\"{{ {'names': ctx('vms') | map(attribute='name')} }}\""),
]

violations = []


def attempt(label, what, func):
    try:
        value = func()
        print("  %s -> %r" % (what, value))
        return True
    except Exception as e:
        frames = [f for f in traceback.extract_tb(e.__traceback__) if "orquesta" in f.filename]
        where = " <- ".join("%s:%d" % (os.path.basename(f.filename), f.lineno) for f in frames[::-1][:3])
        print("  %s RAISED %s: %s   [%s]" % (what, type(e).__name__, e, where))
        violations.append((label, what, type(e).__name__))
        return False


for label, expr in CASES:
    spec = specs.WorkflowSpec(WF % {"expr": expr})
    report = spec.inspect()
    print("\n[%s] publish names: %s" % (label, expr))
    print("  inspect() ->", report if report else "{}  (accepted)")

    if report:
        continue

    c = conducting.WorkflowConductor(spec)
    c.request_workflow_status(statuses.RUNNING)
    print("  get_next_tasks() ->", [t["id"] for t in c.get_next_tasks()])
    c.update_task_state("collect", 0, events.ActionExecutionEvent(statuses.RUNNING))
    attempt(
        label,
        "update_task_state(collect, SUCCEEDED)",
        lambda: c.update_task_state("collect", 0, events.ActionExecutionEvent(statuses.SUCCEEDED))[
            "status"
        ],
    )
    attempt(label, "serialize()", lambda: sorted(c.serialize().keys())[:3])
    attempt(label, "get_next_tasks()", lambda: [(t["id"], t["actions"]) for t in c.get_next_tasks()])
    print("  workflow status ->", c.get_workflow_status(), "errors ->", [e["message"] for e in c.errors])

    if c.get_workflow_status() in statuses.COMPLETED_STATUSES:
        attempt(label, "render_workflow_output()", lambda: c.render_workflow_output())
    else:
        c.update_task_state("report", 0, events.ActionExecutionEvent(statuses.RUNNING))
        c.update_task_state("report", 0, events.ActionExecutionEvent(statuses.SUCCEEDED))
        attempt(label, "render_workflow_output()", lambda: c.render_workflow_output())
        print("  status ->", c.get_workflow_status(), "output ->", c.get_workflow_output())


# Related (same clause, neighbouring cause): a dictionary key given as an expression that evaluates
# to a list. Here update_task_state() itself raises.
WF_B = """
version: 1.0
vars:
  - tags: [blue, green]
tasks:
  collect:
    action: core.noop
    next:
      - publish:
          - index:
              <% ctx().tags %>: 1
        do: noop
"""

spec = specs.WorkflowSpec(WF_B)
report = spec.inspect()
print("\n[4b: dictionary key evaluating to a list] publish index: {<% ctx().tags %>: 1}")
print("  inspect() ->", report if report else "{}  (accepted)")

if not report:
    c = conducting.WorkflowConductor(spec)
    c.request_workflow_status(statuses.RUNNING)
    print("  get_next_tasks() ->", [t["id"] for t in c.get_next_tasks()])
    c.update_task_state("collect", 0, events.ActionExecutionEvent(statuses.RUNNING))
    attempt(
        "4b dict key",
        "update_task_state(collect, SUCCEEDED)",
        lambda: c.update_task_state("collect", 0, events.ActionExecutionEvent(statuses.SUCCEEDED))[
            "status"
        ],
    )

print()

if violations:
    print("VIOLATION: accepted definition, engine raised an internal error:")
    for v in violations:
        print("   ", v)
    sys.exit(1)

print("no violation observed")
sys.exit(0)
