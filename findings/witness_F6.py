from witness_lib import *
c = conductor("""
version: 1.0
tasks:
  a:
    action: core.noop
    next:
      - do: j
  b:
    action: core.noop
    next:
      - when: <% succeeded() %>
        do: j
  j:
    join: all
    action: core.noop
""")
offered(c); ac(c, "a", st.RUNNING); ac(c, "b", st.RUNNING); ac(c, "a", st.SUCCEEDED)
c.request_workflow_status(st.CANCELING)
ac(c, "b", st.CANCELED)
verdict("F6", c.get_workflow_status() != st.CANCELED, "status=%s errors=%s" % (c.get_workflow_status(), c.errors))
