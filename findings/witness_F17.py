from witness_lib import *
bad = []
for mid in (st.PAUSING, st.CANCELING):
    c = conductor("""
version: 1.0
tasks:
  a:
    action: core.noop
""")
    offered(c); ac(c, "a", st.RUNNING)
    ac(c, "a", mid)          # the provider reports the action is pausing / canceling
    ac(c, "a", st.SUCCEEDED)  # ... but it finishes before that takes effect
    rec = c.workflow_state.sequence[-1]
    if rec["status"] in st.ACTIVE_STATUSES and c.get_workflow_status() not in st.COMPLETED_STATUSES + [st.PAUSED]:
        bad.append((mid, rec["status"], c.get_workflow_status(), offered(c)))
verdict("F17", bool(bad), "task record stays active after its action completed: %s" % bad)
