from witness_lib import *
import json
c = conductor("""
version: 1.0
vars:
  - cfg:
      base: 1
tasks:
  init:
    action: core.noop
    next:
      - publish:
          - cfg:
              left: 10
        do: a
      - do: b
  a:
    action: core.noop
  b:
    action: core.echo message=<% ctx(cfg) %>
""")
offered(c); ac(c, "init", st.RUNNING); ac(c, "init", st.SUCCEEDED)
root_before = json.dumps(c.workflow_state.contexts[0], sort_keys=True)
state_before = json.dumps(c.serialize()["state"], sort_keys=True)
tasks = c.get_next_tasks()                      # a pure query
root_after = json.dumps(c.workflow_state.contexts[0], sort_keys=True)
state_after = json.dumps(c.serialize()["state"], sort_keys=True)
b_ctx = [t for t in c.get_next_tasks() if t["id"] == "b"][0]["ctx"]["cfg"]
leak = "left" in b_ctx                         # published only on the transition to a
verdict("F1", root_before != root_after or leak or state_before != state_after,
        "root ctx before=%s after=%s; b sees cfg=%s" % (root_before, root_after, b_ctx))
