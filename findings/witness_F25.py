from witness_lib import *
# a join inside a cycle: in the second iteration the barrier must wait for BOTH branches of that
# iteration; the record of the previous iteration's branch must not count
c = conductor("""
version: 1.0
vars:
  - i: 0
tasks:
  init:
    action: core.noop
    next:
      - do: start
  start:
    action: core.noop
    next:
      - do: a, b
  a:
    action: core.noop
    next:
      - do: j
  b:
    action: core.noop
    next:
      - do: j
  j:
    join: all
    action: core.noop
    next:
      - when: <% ctx().i < 1 %>
        publish: i=<% ctx().i + 1 %>
        do: start
""")
runs = []
def drain(skip=()):
    for t in c.get_next_tasks():
        if t["id"] in skip:
            continue
        runs.append(t["id"]); ac(c, t["id"], st.RUNNING, route=t["route"])
drain(); ac(c, "init", st.SUCCEEDED); drain(); ac(c, "start", st.SUCCEEDED); drain()
ac(c, "a", st.SUCCEEDED); ac(c, "b", st.SUCCEEDED); drain()
assert runs == ["init", "start", "a", "b", "j"], runs
ac(c, "j", st.SUCCEEDED); drain()                      # second iteration: start again
ac(c, "start", st.SUCCEEDED)
drain(skip=("b",))                                     # a and b are offered; only a has been started so far
ac(c, "a", st.SUCCEEDED)                               # a of iteration 2 completes while b of iteration 2 has not started
early = [t["id"] for t in c.get_next_tasks()]
verdict("F25", "j" in early, "second iteration, only branch a arrived: offered %s" % early)
