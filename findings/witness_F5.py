from witness_lib import *
c = conductor("""
version: 1.0
tasks:
  a:
    action: core.noop
""")
offered(c); ac(c, "a", st.REQUESTED)
try:
    ac(c, "a", st.EXPIRED)
    verdict("F5", c.get_workflow_status() != st.FAILED, "status=%s" % c.get_workflow_status())
except SystemExit:
    raise
except Exception as e:
    verdict("F5", True, "%s: %s" % (type(e).__name__, e))
