"""C05: persist / restore.  Contracts on WorkflowState.serialize/deserialize and
WorkflowConductor.serialize/deserialize/restore with every persisted component an opaque value and
json_util.deepcopy abstracted as 'fresh structural copy' (assumed contract on ujson), plus the
syntactic completeness obligations (no instance attribute escapes the persisted form)."""
import ast
import inspect

import z3

from orquesta import conducting, graphing
from orquesta.specs import loader as spec_loader
from orquesta.utils import jsonify as json_util
from contracts import specconst as st

from pyvc import sym as S
from pyvc.engine import AbstractObj, Raised, Stub
from pyvc.framework import Unit

from . import cbase


class Opaque(object):
    """A persisted component (any JSON value).  Copy(x) is 'a fresh structural copy of x'."""

    def __init__(self, name, origin=None, depth=0):
        self.name = name
        self.origin = origin if origin is not None else self
        self.depth = depth

    def __repr__(self):
        return "<%s copy^%d>" % (self.origin.name, self.depth) if self.depth else "<%s>" % self.name

    def __bool__(self):
        return True


class EmptyList(Opaque):
    def __bool__(self):
        return False


def copy_model(eng, v):
    if isinstance(v, Opaque):
        return type(v)(v.name, v.origin, v.depth + 1)
    if isinstance(v, dict):
        return {k: copy_model(eng, x) for k, x in v.items()}
    if isinstance(v, (list, tuple)):
        return [copy_model(eng, x) for x in v]
    return cbase.deepcopy_model(eng, v)


def same_value(a, b):
    """a and b denote structurally equal values (copies of the same original)"""
    return isinstance(a, Opaque) and isinstance(b, Opaque) and a.origin is b.origin


def is_fresh(a, orig):
    return isinstance(a, Opaque) and a.origin is orig.origin and a.depth > orig.depth


WS_FIELDS = ["contexts", "routes", "sequence", "staged", "tasks", "reruns"]


class PersistRestore(Unit):
    name = "C.serialize"
    functions = [
        "orquesta.conducting.WorkflowState.serialize", "orquesta.conducting.WorkflowState.deserialize",
        "orquesta.conducting.WorkflowState.__init__",
        "orquesta.conducting.WorkflowConductor.serialize", "orquesta.conducting.WorkflowConductor.deserialize",
        "orquesta.conducting.WorkflowConductor.restore", "orquesta.conducting.WorkflowConductor.__init__",
        "orquesta.conducting.WorkflowConductor.workflow_state",
    ]
    obligations = {
        "C05.ws.roundtrip": {"props": ["C05"], "text":
            "WorkflowState.deserialize(serialize(s)) equals s on contexts, routes, sequence, staged, status, tasks and reruns (reruns present or absent)"},
        "C05.ws.fresh": {"props": ["C05", "C18"], "text":
            "every container of the persisted form and of the restored state is a fresh copy: nothing is shared with the live state"},
        "C05.ws.complete": {"props": ["C05"], "text":
            "every instance attribute WorkflowState ever assigns (other than the back reference to the conductor) is persisted and restored"},
        "C05.cond.roundtrip": {"props": ["C05"], "text":
            "WorkflowConductor.deserialize restores exactly the eight persisted components (spec, graph, input, context, state, log, errors, output) and re-links the state to the conductor"},
        "C05.cond.consistent": {"props": ["C05", "C11"], "text":
            "the persisted form is a snapshot of one state: its errors, status and output are those the conductor has when serialize() returns (also when serialize() is the first call and initialisation fails)"},
        "C05.cond.no_hidden_state": {"props": ["C05"], "text":
            "every instance attribute WorkflowConductor ever assigns is either persisted or a function of the persisted spec (catalog, spec_module, composer)"},
        "C05.idempotent": {"props": ["C05"], "text":
            "persisting a restored state reproduces the persisted form (component-wise equal)"},
    }
    assumptions = [
        "json_util.deepcopy(v) is a fresh structural copy equal to v for JSON values (ujson round trip: assumed, bounded-checked in thorough)",
        "spec.serialize / WorkflowSpec.deserialize and graph.serialize / WorkflowGraph.deserialize are inverse (C14 graph round trip; spec classes external to this unit)",
        "persisted components are opaque JSON values (universally quantified)",
    ]
    trusted = ["pyvc interpreter", "CPython ast (syntactic scans)"]

    def splits(self, tier):
        return ["state", "state_no_reruns", "conductor", "conductor_init_fails", "syntactic"]

    def run_split(self, ctx, split):
        def thunk(e):
            e.overrides[json_util.deepcopy] = copy_model
            if split in ("state", "state_no_reruns"):
                ws = object.__new__(conducting.WorkflowState)
                fields = {f: Opaque(f) for f in WS_FIELDS}
                if split == "state_no_reruns":
                    fields["reruns"] = EmptyList("reruns")
                ws.__dict__.update(fields)
                ws.status = st.RUNNING
                ws.conductor = object()
                data = e.call(conducting.WorkflowState.serialize, [ws], {})
                info = {"case": split}
                keys_ok = set(data) == set(WS_FIELDS + ["status"]) - ({"reruns"} if split == "state_no_reruns" else set())
                ctx.oblige("C05.ws.fresh", keys_ok and all(is_fresh(data[f], fields[f]) for f in data if f != "status"), None, info)
                back = e.call(conducting.WorkflowState.deserialize, [data], {})
                ok = back.status == st.RUNNING and isinstance(back, conducting.WorkflowState)
                for f in WS_FIELDS:
                    got = getattr(back, f, None)
                    if f == "reruns" and split == "state_no_reruns":
                        ok = ok and got == []
                    else:
                        ok = ok and same_value(got, fields[f]) and is_fresh(got, data[f])
                ctx.oblige("C05.ws.roundtrip", ok, None, info)
                again = e.call(conducting.WorkflowState.serialize, [back], {})
                ctx.oblige("C05.idempotent", set(again) == set(data) and all(
                    (again[k] == data[k]) if k == "status" else same_value(again[k], data[k]) for k in data), None, info)
                ctx.canary()
                return
            if split == "syntactic":
                self.syntactic(ctx)
                return
            # ---------------- conductor
            init_fails = split == "conductor_init_fails"
            log = cbase.CallLog()
            spec_ser, graph_ser = Opaque("spec_ser"), Opaque("graph_ser")
            err = {"type": "error", "message": "YaqlEvaluationException: boom"}

            def render_input(eng, inputs, ctx_):
                log.add("render_input")
                return ({}, [Exception("boom")]) if init_fails else ({}, [])

            spec = AbstractObj("spec", serialize=Stub("serialize", lambda eng: spec_ser),
                               render_input=Stub("render_input", render_input),
                               render_vars=Stub("render_vars", lambda eng, c_: ({}, [])))
            graph = AbstractObj("graph", serialize=Stub("serialize", lambda eng: graph_ser), roots=[])
            c = object.__new__(conducting.WorkflowConductor)
            inputs, pctx, logv, errs, outs = Opaque("inputs"), Opaque("parent_ctx"), Opaque("log"), [], Opaque("outputs")
            c.__dict__.update(dict(spec=spec, catalog="native", spec_module=None, composer=None, _errors=errs,
                                   _graph=graph, _inputs=inputs, _log=logv, _outputs=outs, _parent_ctx=pctx,
                                   _workflow_state=None))
            e.overrides[conducting.WorkflowConductor.log_errors] = \
                lambda eng, s_, errors, **kw: [s_._errors.append(dict(err)) for _ in errors] and None
            e.overrides[conducting.WorkflowConductor.request_workflow_status] = \
                lambda eng, s_, status: setattr(s_._workflow_state, "status", status)
            from orquesta.utils import dictionary as dict_util
            e.overrides[dict_util.merge_dicts] = lambda eng, l, r, overwrite=True: l
            data = e.call(conducting.WorkflowConductor.serialize, [c], {})
            info = {"case": split}
            want_keys = {"spec", "graph", "input", "context", "state", "log", "errors", "output"}
            ok = set(data) == want_keys and data["spec"] is spec_ser and data["graph"] is graph_ser \
                and is_fresh(data["input"], inputs) and is_fresh(data["context"], pctx) and is_fresh(data["log"], logv) \
                and is_fresh(data["output"], outs)
            ctx.oblige("C05.ws.fresh", ok, None, info)
            ws = c._workflow_state
            consistent = isinstance(ws, conducting.WorkflowState) and data["state"]["status"] == ws.status \
                and len(data["errors"]) == len(c._errors) and (not init_fails or (len(c._errors) == 1 and ws.status == st.FAILED))
            ctx.oblige("C05.cond.consistent", consistent, None, info)
            if init_fails:
                ctx.canary()
                return
            # restore
            e.overrides[spec_loader.get_spec_module] = lambda eng, catalog: AbstractObj(
                "spec_module", WorkflowSpec=AbstractObj("WorkflowSpec", deserialize=Stub(
                    "deserialize", lambda en, d: _mkspec(d))))
            made = {}

            def _mkspec(d):
                made["spec_from"] = d
                from orquesta.specs import native as native_specs
                sp = object.__new__(native_specs.WorkflowSpec)
                return sp

            e.overrides[graphing.WorkflowGraph.__dict__["deserialize"].__func__] = \
                lambda eng, cls, d: made.setdefault("graph", _mkgraph(d))

            def _mkgraph(d):
                made["graph_from"] = d
                return object.__new__(graphing.WorkflowGraph)

            e.overrides[conducting.WorkflowConductor.__init__] = \
                lambda eng, s_, sp, context=None, inputs=None: s_.__dict__.update(dict(spec=sp, _errors=[], _graph=None, _inputs={}, _log=[], _outputs=None, _parent_ctx={}, _workflow_state=None))
            persisted = {"spec": {"catalog": "native", "s": 1}, "graph": Opaque("p.graph"), "input": {"i": Opaque("p.input")},
                         "context": {"c": Opaque("p.context")}, "log": [Opaque("p.log")], "errors": [Opaque("p.errors")],
                         "output": {"o": Opaque("p.output")},
                         "state": {"contexts": Opaque("p.contexts"), "routes": Opaque("p.routes"), "sequence": Opaque("p.sequence"),
                                   "staged": Opaque("p.staged"), "status": st.PAUSED, "tasks": Opaque("p.tasks"),
                                   "reruns": Opaque("p.reruns")}}
            r = e.call(conducting.WorkflowConductor.deserialize, [persisted], {})
            d = r.__dict__
            rt = isinstance(r, conducting.WorkflowConductor) and made.get("spec_from") is persisted["spec"] \
                and made.get("graph_from") is persisted["graph"] and d["_graph"] is made["graph"] \
                and _eq(d["_inputs"], persisted["input"]) and _eq(d["_parent_ctx"], persisted["context"]) \
                and _eq(d["_log"], persisted["log"]) and _eq(d["_errors"], persisted["errors"]) \
                and _eq(d["_outputs"], persisted["output"]) and isinstance(d["_workflow_state"], conducting.WorkflowState) \
                and d["_workflow_state"].conductor is r and d["_workflow_state"].status == st.PAUSED \
                and all(same_value(getattr(d["_workflow_state"], f), persisted["state"][f]) for f in WS_FIELDS)
            ctx.oblige("C05.cond.roundtrip", rt, None, info)
            ctx.canary()

        ctx.eng.explore(thunk)

    def syntactic(self, ctx):
        src = inspect.getsource(conducting)
        tree = ast.parse(src)
        attrs = {}
        for cls in [n for n in tree.body if isinstance(n, ast.ClassDef)]:
            found = set()
            for node in ast.walk(cls):
                targets = []
                if isinstance(node, ast.Assign):
                    targets = node.targets
                elif isinstance(node, (ast.AugAssign, ast.AnnAssign)):
                    targets = [node.target]
                flat = []
                for t in targets:
                    flat.extend(t.elts if isinstance(t, (ast.Tuple, ast.List)) else [t])
                for x in flat:
                    if isinstance(x, ast.Attribute) and isinstance(x.value, ast.Name) and x.value.id in ("self", "instance"):
                        found.add(x.attr)
            attrs[cls.name] = found
        ws_ok = attrs.get("WorkflowState", set()) <= set(WS_FIELDS) | {"status", "conductor"}
        ctx.oblige("C05.ws.complete", ws_ok, None, {"assigned": sorted(attrs.get("WorkflowState", []))})
        persisted = {"_errors", "_graph", "_inputs", "_log", "_outputs", "_parent_ctx", "_workflow_state", "spec"}
        derived = {"catalog", "spec_module", "composer"}
        got = attrs.get("WorkflowConductor", set())
        ctx.oblige("C05.cond.no_hidden_state", got <= persisted | derived | set(WS_FIELDS) | {"status", "conductor"},
                   None, {"assigned": sorted(got)})
        ctx.canary()


def _eq(a, b):
    if isinstance(a, dict) and isinstance(b, dict):
        return set(a) == set(b) and all(_eq(a[k], b[k]) for k in a) and a is not b
    if isinstance(a, list) and isinstance(b, list):
        return len(a) == len(b) and all(_eq(x, y) for x, y in zip(a, b)) and a is not b
    return same_value(a, b) and a is not b
