"""Context plumbing under contract: merge_dicts, get_task_context, TaskSpec.finalize_context,
set_current_task / set_current_item, ctx_().  Small-scope exhaustive shapes (BOUNDED: <= 2 top-level keys,
nesting depth <= 2, <= 3 deltas), real code interpreted from source; aliasing is decided by object
identity on the interpreter's real heap."""
import itertools

import z3

from orquesta import conducting, exceptions as exc
from orquesta.expressions import base as expr_base
from orquesta.expressions.functions import common as fn_common
from orquesta.specs.native.v1 import models
from orquesta.utils import context as ctx_util, dictionary as dict_util, jsonify as json_util
from contracts import specconst as st

from pyvc import sym as S
from pyvc.engine import _Continue, AbstractObj, Raised, Stub, SymExc
from pyvc.framework import Unit

from . import cbase


class Leaf(object):
    """Opaque JSON leaf with identity (stands for any non-dict value)."""

    def __init__(self, name):
        self.name = name

    def __repr__(self):
        return "<%s>" % self.name


def deep_ids(v, acc=None):
    acc = acc if acc is not None else set()
    if isinstance(v, dict):
        acc.add(id(v))
        for x in v.values():
            deep_ids(x, acc)
    elif isinstance(v, list):
        acc.add(id(v))
        for x in v:
            deep_ids(x, acc)
    return acc


def snap(v):
    if isinstance(v, dict):
        return {k: snap(x) for k, x in v.items()}
    if isinstance(v, list):
        return [snap(x) for x in v]
    return v


def deq(a, b):
    """deep equality with identity on leaves"""
    if isinstance(a, dict) and isinstance(b, dict):
        return set(a) == set(b) and all(deq(a[k], b[k]) for k in a)
    if isinstance(a, list) and isinstance(b, list):
        return len(a) == len(b) and all(deq(x, y) for x, y in zip(a, b))
    return a is b


# cross-type-equal leaves: Python equality crosses types (True == 1 == 1.0, 0 == False)
CROSS = [1, True, 1.0, 0, False, "1", None]


def value_shapes(tag):
    """candidate values for one key: absent, leaf, nested dict variants"""
    yield ("absent", None)
    yield ("leaf", lambda: Leaf(tag))
    yield ("dict0", lambda: {})
    yield ("dictx", lambda: {"x": Leaf(tag + ".x")})
    yield ("dictxy", lambda: {"x": Leaf(tag + ".x"), "y": Leaf(tag + ".y")})


def spec_merge(left, right, overwrite=True):
    """Mathematical specification of merge_dicts on snapshots (pure)."""
    if left is None:
        return right
    if right is None:
        return left
    out = dict(left)
    for k, v in right.items():
        if k not in left:
            out[k] = v
        elif isinstance(left[k], dict) and isinstance(v, dict):
            out[k] = spec_merge(left[k], v, overwrite)
        elif overwrite:
            out[k] = v
    return out


class MergeDicts(Unit):
    bounded = True
    name = "U.merge_dicts"
    functions = ["orquesta.utils.dictionary.merge_dicts"]
    obligations = {
        "C06.merge_dicts.spec": {"props": ["C06", "C16", "C15"], "text":
            "per key: right-only => right's value; both and not both dicts and overwrite => right's value; both dicts => recursive merge; left-only => left's value; result is `left`"},
        "C06.merge_dicts.frame": {"props": ["C06", "C16", "C18"], "text":
            "merge_dicts writes only into `left` and the dicts reachable from `left`; `right` and everything reachable from it is unchanged"},
        "C16.merge_dicts.exact": {"props": ["C16"], "text":
            "an overwritten value is exactly right's value in type and identity, also when it compares equal to the old one across types (True/1/1.0, 0/False)"},
    }
    assumptions = ["BOUNDED: two top-level keys, nesting depth 2, every combination of absent/leaf/dict per key and side; overwrite in {True, False}; None arguments"]
    trusted = ["pyvc interpreter (all values concrete: obligations are evaluated natively by z3-free comparison)"]

    def splits(self, tier):
        return ["shapes", "cross", "none"]

    def run_split(self, ctx, split):
        def thunk(e):
            n = 0
            if split == "shapes":
                for (la, lav), (lb, lbv), (ra, rav), (rb, rbv), ow in itertools.product(
                        value_shapes("L.a"), value_shapes("L.b"), value_shapes("R.a"), value_shapes("R.b"),
                        (True, False)):
                    left, right = {}, {}
                    if lav: left["a"] = lav()
                    if lbv: left["b"] = lbv()
                    if rav: right["a"] = rav()
                    if rbv: right["b"] = rbv()
                    ls, rs = snap(left), snap(right)
                    rids = deep_ids(right)
                    res = e.call(dict_util.merge_dicts, [left, right], {"overwrite": ow})
                    info = {"left": repr(ls), "right": repr(rs), "overwrite": ow}
                    ctx.oblige("C06.merge_dicts.spec", res is left and deq(res, spec_merge(ls, rs, ow)), None, info)
                    ctx.oblige("C06.merge_dicts.frame", deq(right, rs) and deep_ids(right) == rids, None, info)
                    n += 1
            elif split == "cross":
                for lv, rv in itertools.product(CROSS, CROSS):
                    left, right = {"k": lv, "n": {"k": lv}}, {"k": rv, "n": {"k": rv}}
                    res = e.call(dict_util.merge_dicts, [left, right], {"overwrite": True})
                    ok = res["k"] is rv and type(res["k"]) is type(rv) and res["n"]["k"] is rv
                    ctx.oblige("C16.merge_dicts.exact", ok, None, {"left": repr(lv), "right": repr(rv)})
            else:
                d = {"a": Leaf("a")}
                ctx.oblige("C06.merge_dicts.spec", e.call(dict_util.merge_dicts, [None, d], {}) is d
                           and e.call(dict_util.merge_dicts, [d, None], {}) is d, None, {"none": True})
            ctx.canary()

        ctx.eng.explore(thunk)
        ctx.bounded.append({"unit": self.name, "bound": "2 keys, depth 2, exhaustive shapes"})


# ================================================================================================
# get_task_context
# ================================================================================================
class GetTaskContext(Unit):
    bounded = True
    name = "C.get_task_context"
    functions = ["orquesta.conducting.WorkflowConductor.get_task_context",
                 "orquesta.conducting.WorkflowConductor.get_task_initial_context"]
    obligations = {
        "C06.gtc.fold": {"props": ["C06"], "text":
            "the context is the left fold of the listed deltas in list order: for every variable the delta latest in the list that publishes it wins (a dict over a dict is merged key-wise: recorded finding F3 when the property demands superseding)"},
        "C06.gtc.superseded": {"props": ["C06"], "text":
            "when a later delta in the list publishes variable k, the task sees exactly that value of k, not a blend with an earlier one"},
        "C06.gtc.frame": {"props": ["C06", "C18", "C19"], "text":
            "get_task_context modifies nothing: the stored context snapshots are unchanged and the result shares no container with them"},
    }
    assumptions = ["BOUNDED: <= 3 stored deltas over 2 variables (leaf or one-level dict values), every index list of length <= 3 (any order, repeats)",
                   "json_util.deepcopy: fresh structural copy"]
    trusted = ["pyvc interpreter"]

    def splits(self, tier):
        return [0, 1, 2]

    def run_split(self, ctx, split):
        def thunk(e):
            e.overrides[json_util.deepcopy] = lambda eng, v: _copy_keep_leaves(v)
            kinds = [("leaf", lambda t: Leaf(t)), ("dictx", lambda t: {"x": Leaf(t + ".x")}),
                     ("dicty", lambda t: {"y": Leaf(t + ".y")})]
            n_ctx = 3
            shapes = list(itertools.product([None] + kinds, repeat=2))
            # delta i publishes variable "a" with shape sa, variable "b" with shape sb
            picks = shapes[split::3]
            for s0 in picks:
                for s1 in shapes:
                    for s2 in (shapes[0], shapes[4], shapes[7]):
                        contexts = []
                        for i, sh in enumerate((s0, s1, s2)):
                            d = {}
                            for var, k in zip(("a", "b"), sh):
                                if k is not None:
                                    d[var] = k[1]("c%d.%s" % (i, var))
                            contexts.append(d)
                        for idxs in ([0], [0, 1], [1, 0], [0, 1, 2], [0, 2, 1], [2, 0, 1], [0, 0, 1]):
                            c, ws = cbase.new_conductor(st.RUNNING, contexts=contexts)
                            sn = snap(contexts)
                            ids_before = deep_ids(contexts)
                            res = e.call(conducting.WorkflowConductor.get_task_context, [c, list(idxs)], {})
                            info = {"contexts": repr(sn), "idxs": idxs}
                            want = {}
                            for i in idxs:
                                want = spec_merge(want, sn[i], True)
                            ctx.oblige("C06.gtc.fold", deq(res, want), {"blend": False}, info)
                            # superseded: the last delta in the list that publishes k decides k entirely
                            sup_ok = True
                            blended = False
                            for var in ("a", "b"):
                                pubs = [i for i in idxs if var in sn[i]]
                                if pubs:
                                    last = sn[pubs[-1]][var]
                                    if not deq(res.get(var), last):
                                        sup_ok = False
                                        if isinstance(last, dict) and any(isinstance(sn[i][var], dict) for i in pubs[:-1]):
                                            blended = True
                            ctx.oblige("C06.gtc.superseded", sup_ok, {"blend": blended}, info)
                            frame = deq(contexts, sn) and deep_ids(contexts) == ids_before and \
                                not (deep_ids(res) & ids_before)
                            ctx.oblige("C06.gtc.frame", frame, None, info)
            ctx.canary()

        ctx.eng.explore(thunk)
        ctx.bounded.append({"unit": self.name, "bound": "3 deltas x 2 variables, index lists <= 3"})


def _copy_keep_leaves(v):
    if isinstance(v, dict):
        return {k: _copy_keep_leaves(x) for k, x in v.items()}
    if isinstance(v, (list, tuple)):
        return [_copy_keep_leaves(x) for x in v]
    return v


# ================================================================================================
# TaskSpec.finalize_context
# ================================================================================================
class FinalizeContext(Unit):
    bounded = True
    name = "U.finalize_context"
    functions = ["orquesta.specs.native.v1.models.TaskSpec.finalize_context"]
    obligations = {
        "C06.finalize.delta": {"props": ["C06", "C20", "C01", "C16"], "text":
            "the new delta holds exactly the variables of this transition's publish list (when the target is one of the transition's `do` names, in any documented notation), each evaluated in order against a rolling copy in which earlier publishes of the same list are visible; nothing else; a publish equal to the inherited value is still published"},
        "C06.finalize.in_ctx_unchanged": {"props": ["C06", "C16"], "text":
            "finalize_context does not modify the context it is given (other than what merge into the returned out_ctx does to the caller's disposable copy) and the delta shares no container with it"},
        "C11.finalize.collects": {"props": ["C11"], "text":
            "an ExpressionEvaluationException while evaluating a publish is returned in the error list, not raised"},
        "C16.finalize.no_internals": {"props": ["C16"], "text":
            "no name beginning with a double underscore survives in the outgoing context"},
    }
    assumptions = ["BOUNDED: publish lists of <= 2 variables, `do` as a name, a list, a comma string with and without blanks",
                   "expr_base.evaluate: assumed contract (may raise ExpressionEvaluationException, else a value); json_util.deepcopy fresh copy",
                   "real TaskSpec objects built natively from definition dicts"]
    trusted = ["pyvc interpreter", "orquesta spec classes' construction (native)"]

    def splits(self, tier):
        return ["name", "list", "comma", "comma_nospace", "comma_spaces", "other"]

    def run_split(self, ctx, split):
        do = {"name": "t2", "list": ["t2", "t3"], "comma": "t2, t3", "comma_nospace": "t2,t3",
              "comma_spaces": "t3 , t2", "other": "t9"}[split]

        def thunk(e):
            e.overrides[json_util.deepcopy] = lambda eng, v: _copy_keep_leaves(v)
            for pubs in ([], [("x", "E1")], [("x", "E1"), ("y", "E2")], [("x", "E1"), ("x", "E2")], [("__h", "E1")]):
                for fail in (None, 0, 1):
                    if fail is not None and fail >= len(pubs):
                        continue
                    for inherited in (False, True):
                        tr = {"do": do}
                        if pubs:
                            tr["publish"] = [{k: "<%% %s %%>" % v} for k, v in pubs]
                        spec = models.TaskSpec({"action": "core.noop", "next": [tr, {"do": "t7", "publish": [{"z": "<% E9 %>"}]}]})
                        seen = []
                        vals = {}

                        def evaluate(eng, statement, data=None, fail=fail, seen=seen, vals=vals, pubs=pubs, inherited=inherited):
                            idx = len(seen)
                            seen.append((statement, dict(data)))
                            if fail is not None and idx == fail:
                                raise Raised(exc.ExpressionEvaluationException, ("cannot evaluate",))
                            if inherited and idx == 0:
                                return data.get(pubs[0][0])     # re-publishes exactly the inherited value
                            vals[idx] = Leaf("v%d" % idx)
                            return vals[idx]

                        e.overrides[expr_base.evaluate] = evaluate
                        inh = Leaf("inherited")
                        in_ctx = {"x": inh, "w": {"deep": Leaf("w")}, "__current_task": {"id": "t1"}, "__state": {}}
                        sn = snap(in_ctx)
                        meta = ("t1", "t2", 0, {"criteria": [], "ref": 0})
                        raised = None
                        try:
                            out_ctx, new_ctx, errors = e.call(models.TaskSpec.finalize_context, [spec, "t2", meta, in_ctx], {})
                        except Raised as r:
                            raised = r
                        info = {"do": do, "publish": pubs, "failing": fail, "republish_inherited": inherited}
                        ctx.oblige("C11.finalize.collects", raised is None, None, info)
                        if raised is not None:
                            continue
                        applies = split != "other"
                        want = {}
                        if applies:
                            for i, (k, _) in enumerate(pubs):
                                if fail is not None and i == fail:
                                    continue
                                want[k] = inh if (inherited and i == 0 and k == "x") else (vals.get(i) if not (inherited and i == 0) else None)
                        ok = set(new_ctx) == set(want) and all(new_ctx[k] is want[k] for k in want)
                        # rolling: the second evaluation sees the first publish
                        if applies and len(pubs) == 2 and fail is None and len(seen) == 2:
                            first_k = pubs[0][0]
                            ok = ok and seen[1][1].get(first_k) is (new_ctx.get(first_k) if pubs[1][0] != first_k else seen[1][1].get(first_k))
                        if not applies:
                            ok = ok and not seen
                        ctx.oblige("C06.finalize.delta", ok, None, info)
                        ctx.oblige("C11.finalize.collects", (len(errors) == (1 if (fail is not None and applies) else 0)), None, info)
                        keep = {k: v for k, v in in_ctx.items() if k in sn}
                        ctx.oblige("C06.finalize.in_ctx_unchanged",
                                   all((in_ctx[k] is sn[k]) or deq(in_ctx[k], sn[k]) for k in ("w",))
                                   and not (deep_ids(new_ctx) & deep_ids(in_ctx)), None, info)
                        ctx.oblige("C16.finalize.no_internals", not any(k.startswith("__") for k in out_ctx), None, info)
            ctx.canary()

        ctx.eng.explore(thunk)
        ctx.bounded.append({"unit": self.name, "bound": "<=2 publishes, do notation=%s" % split})


# ================================================================================================
# set_current_task / set_current_item / ctx_()
# ================================================================================================
class ContextHelpers(Unit):
    bounded = True
    name = "U.context_helpers"
    functions = ["orquesta.utils.context.set_current_task", "orquesta.utils.context.set_current_item",
                 "orquesta.expressions.functions.common.ctx_"]
    obligations = {
        "C19.ctxutil.copy": {"props": ["C19", "C16", "C06"], "text":
            "set_current_task / set_current_item return a context that shares no container with the given one (so rendering against it cannot touch stored state) and leave the given one unchanged"},
        "C16.ctx_.hides": {"props": ["C16"], "text":
            "ctx_(c, k) raises VariableInaccessibleError for k starting with a double underscore, VariableUndefinedError for an unknown k, and ctx_(c) lists exactly the names without that prefix - user variables named `_x`, `_`, `x__y`, `a_` included - each with its own value"},
    }
    assumptions = ["BOUNDED: nested context of depth 2; json_util.deepcopy fresh structural copy"]
    trusted = ["pyvc interpreter"]

    def run_split(self, ctx, split):
        def thunk(e):
            e.overrides[json_util.deepcopy] = lambda eng, v: _copy_keep_leaves(v)
            for fn, arg in ((ctx_util.set_current_task, {"id": "t1", "route": 0, "result": Leaf("r")}),
                            (ctx_util.set_current_task, {"id": "t1", "route": 0}),
                            (ctx_util.set_current_item, Leaf("item"))):
                base = {"a": Leaf("a"), "d": {"x": Leaf("x"), "l": [Leaf("l0")]}}
                sn = snap(base)
                ids = deep_ids(base)
                res = e.call(fn, [base, arg], {})
                ok = deq(base, sn) and deep_ids(base) == ids and not (deep_ids(res) & ids) and res is not base \
                    and deq({k: v for k, v in res.items() if not k.startswith("__")}, sn)
                ctx.oblige("C19.ctxutil.copy", ok, None, {"function": fn.__name__})
            # user variables whose names merely resemble the internal prefix stay visible
            users = ("a", "_x", "_", "x__y", "a_")
            vars_ = {k: Leaf(k) for k in users}
            vars_.update({"__state": Leaf("s"), "__current_task": Leaf("t")})
            context = {"__vars": vars_}
            r = e.call(fn_common.ctx_, [context], {})
            ctx.oblige("C16.ctx_.hides", set(r) == set(users) and all(r[k] is vars_[k] for k in users if k in r), None, {"call": "ctx()"})
            for k in users:
                got = None
                try:
                    got = e.call(fn_common.ctx_, [context, k], {})
                except Raised as rr:
                    got = rr.cls
                ctx.oblige("C16.ctx_.hides", got is vars_[k], None, {"call": "ctx(%r)" % k})
            for key, want in (("__state", exc.VariableInaccessibleError), ("__current_task", exc.VariableInaccessibleError),
                              ("nope", exc.VariableUndefinedError), ("__nope", exc.VariableUndefinedError)):
                got = None
                try:
                    e.call(fn_common.ctx_, [context, key], {})
                except Raised as rr:
                    got = rr.cls
                ctx.oblige("C16.ctx_.hides", got is want, None, {"call": "ctx(%r)" % key})
            ctx.oblige("C16.ctx_.hides", e.call(fn_common.ctx_, [context, "a"], {}) is context["__vars"]["a"], None, {"call": "ctx('a')"})
            ctx.canary()

        ctx.eng.explore(thunk)


# ================================================================================================
# merge_dicts for ARBITRARY dicts: one generic key of `right` (proof; the whole-dict statement follows
# because every key of `right` is visited exactly once and an iteration writes only its own key)
# ================================================================================================
class MergeDictsGeneric(Unit):
    name = "U.merge_dicts.generic_key"
    functions = ["orquesta.utils.dictionary.merge_dicts"]
    obligations = {
        "C06.merge_dicts.per_key": {"props": ["C06", "C16", "C15"], "text":
            "for an arbitrary key k of `right` (arbitrary dicts, arbitrary values): k absent from left => left[k] becomes right[k]; both values dicts => left[k] stays the same object and is merged recursively with right[k]; otherwise overwrite => left[k] becomes exactly right[k], no overwrite => unchanged; no other key of left and nothing of right is written; None arguments return the other one"},
    }
    assumptions = [
        "dicts are abstracted as (membership, value) functions over arbitrary keys; values opaque with an uninterpreted is-dict predicate",
        "loop summary: each key of `right` is visited exactly once (dict.items contract) and one iteration writes only left[k] (shown per iteration) - the lift from one generic iteration to the whole loop is this independence argument, not re-proved by the solver",
        "the recursive call is used through this same contract (termination on finite nesting not proved)",
    ]
    trusted = ["z3 5.1", "pyvc interpreter"]

    def run_split(self, ctx, split):
        eng = ctx.eng

        def thunk(e):
            k = S.mk_const("k")                      # arbitrary key
            in_left = e.register_input("k_in_left", S.mk_bool("k_in_left"))
            lval = S.mk_val("left_k")
            rval = S.mk_val("right_k")
            ldict = e.register_input("left_k_is_dict", S.mk_bool("left_k_is_dict"))
            rdict = e.register_input("right_k_is_dict", S.mk_bool("right_k_is_dict"))
            overwrite = e.register_input("overwrite", S.mk_bool("overwrite"))
            writes, recursive, right_writes = [], [], []

            def l_contains(en, key):
                assert key is k
                return in_left

            def l_get(en, key):
                assert key is k
                if not en.branch(in_left.z):
                    from pyvc.engine import Raised as R
                    raise R(KeyError, (key,))
                return lval

            def l_set(en, key, value):
                writes.append((key, value))

            left = AbstractObj("left", __contains__=Stub("contains", l_contains), __getitem__=Stub("getitem", l_get),
                               __setitem__=Stub("setitem", l_set))
            right = AbstractObj("right", items=Stub("items", lambda en: "RIGHT_ITEMS"),
                                __setitem__=Stub("setitem", lambda en, a, b: right_writes.append((a, b))))

            def loop(en, st_, env):
                # one generic iteration: (k, v) an arbitrary item of right
                en.assign(st_.target, (k, rval), env)
                try:
                    en.exec_block(st_.body, env)
                except _Continue:
                    pass

            e.loop_handlers["merge_dicts:loop#0"] = loop

            def isinst(en, args, kwargs, anysym):
                x, t = args
                if t is dict and x is lval:
                    return ldict
                if t is dict and x is rval:
                    return rdict
                return seqlib_isinstance(en, args, kwargs, anysym)

            from pyvc import seqlib as _sl
            seqlib_isinstance = _sl.BUILTIN_MODELS[isinstance]
            _sl.BUILTIN_MODELS[isinstance] = isinst
            real = dict_util.merge_dicts

            def rec(en, l, r, overwrite=True):
                if l is left and r is right:
                    return en.call_function(real, [l, r], {"overwrite": overwrite}, bypass=True)
                recursive.append((l, r, overwrite))
                return l

            e.overrides[real] = rec
            try:
                res = e.call(dict_util.merge_dicts, [left, right], {"overwrite": overwrite})
            finally:
                _sl.BUILTIN_MODELS[isinstance] = seqlib_isinstance
            ow = overwrite.z
            both = z3.And(in_left.z, ldict.z, rdict.z)
            wrote = [w for w in writes if w[0] is k]
            ok_frame = len(wrote) == len(writes) and not right_writes and res is left
            if not wrote and not recursive:
                claim = z3.And(in_left.z, z3.Not(both), z3.Not(ow))
            elif recursive and not wrote:
                claim = z3.And(both, z3.BoolVal(recursive == [(lval, rval, overwrite)] or
                                                (len(recursive) == 1 and recursive[0][0] is lval and recursive[0][1] is rval)))
            elif len(wrote) == 1 and not recursive:
                claim = z3.And(z3.BoolVal(wrote[0][1] is rval), z3.Or(z3.Not(in_left.z), z3.And(z3.Not(both), ow)))
            else:
                claim = z3.BoolVal(False)
            ctx.oblige("C06.merge_dicts.per_key", z3.And(z3.BoolVal(ok_frame), claim), None,
                       {"writes": len(writes), "recursive_calls": len(recursive)})
            ctx.canary()

        eng.explore(thunk)

        def none_cases(e):
            e.overrides.pop(dict_util.merge_dicts, None)
            e.loop_handlers.pop("merge_dicts:loop#0", None)
            d = AbstractObj("d")
            ctx.oblige("C06.merge_dicts.per_key", e.call(dict_util.merge_dicts, [None, d], {}) is d and
                       e.call(dict_util.merge_dicts, [d, None], {}) is d, None, {"none": True})
        eng.explore(none_cases)
