"""Layer S: the WorkflowState query methods define the facts used by layer M.  Proved for `sequence`,
`staged` and the pointer map of UNBOUNDED symbolic length: each query equals its definition in the
abstract view (DESIGN §3.1)."""
import z3

from orquesta import conducting
from contracts import specconst as st

from pyvc import seqlib, sym as S
from pyvc.engine import AbstractObj, Raised, Stub
from pyvc.framework import Unit
from pyvc.sym import SBool, SConst, SInt, SList, OptField, INTERN

from . import cbase


def fresh_sequence(e):
    """records with optional status: (has_status[i], status[i])"""
    has = z3.Function(S.fresh_name("rec_has_status"), z3.IntSort(), z3.BoolSort())
    stat = z3.Function(S.fresh_name("rec_status"), z3.IntSort(), z3.IntSort())
    n = z3.Int(S.fresh_name("n_records"))
    e.assume(n >= 0)
    i = z3.Int(S.fresh_name("ri"))
    ids = [INTERN.id_of(s) for s in st.ALL_STATUSES]
    e.assume(z3.ForAll([i], z3.Or([stat(i) == k for k in ids]), patterns=[stat(i)]))
    seq = SList(n, lambda j: {"id": "t", "route": 0,
                              "status": OptField(has(seqlib.zidx(j)), SConst(stat(seqlib.zidx(j)), st.ALL_STATUSES))}, "sequence")
    return seq, has, stat, n


def fresh_staged(e):
    ready = z3.Function(S.fresh_name("stg_ready"), z3.IntSort(), z3.BoolSort())
    hascomp = z3.Function(S.fresh_name("stg_has_completed"), z3.IntSort(), z3.BoolSort())
    comp = z3.Function(S.fresh_name("stg_completed"), z3.IntSort(), z3.BoolSort())
    m = z3.Int(S.fresh_name("n_staged"))
    e.assume(m >= 0)
    stg = SList(m, lambda j: {"id": "s", "route": 0, "ready": SBool(ready(seqlib.zidx(j))),
                              "completed": OptField(hascomp(seqlib.zidx(j)), SBool(comp(seqlib.zidx(j))))}, "staged")
    return stg, ready, hascomp, comp, m


class StateQueries(Unit):
    name = "S.workflow_state_queries"
    functions = [
        "orquesta.conducting.WorkflowState.get_staged_tasks", "orquesta.conducting.WorkflowState.has_staged_tasks",
        "orquesta.conducting.WorkflowState.get_tasks_by_status", "orquesta.conducting.WorkflowState.has_active_tasks",
        "orquesta.conducting.WorkflowState.has_pausing_tasks", "orquesta.conducting.WorkflowState.has_paused_tasks",
        "orquesta.conducting.WorkflowState.has_canceling_tasks", "orquesta.conducting.WorkflowState.has_canceled_tasks",
        "orquesta.conducting.WorkflowConductor.has_next_tasks",
    ]
    obligations = {
        "C01.S.ready_entries": {"props": ["C01", "C03", "C02"], "text":
            "get_staged_tasks() is the order-preserving selection of exactly the staged entries that are ready and not flagged completed; has_staged_tasks / has_next_tasks() hold iff one exists (a completed-flagged with-items entry does not count as pending)"},
        "C02.S.status_facts": {"props": ["C02", "C03", "C09", "C10"], "text":
            "has_active / pausing / paused / canceling / canceled_tasks hold iff some LATEST record (one the pointer map points at) carries a status of the corresponding set: active = action in flight; paused includes pending"},
    }
    assumptions = [
        "sequence, staged and the pointer map have arbitrary length (no bound); record statuses arbitrary",
        "the pointer map is abstracted to the list of its values (dict.values()): assumed contract on the builtin dict",
        "sequence axioms (filter, enumerate, membership) of DESIGN Appendix A",
    ]
    trusted = ["z3 5.1 (quantified VCs)", "pyvc sequence library"]
    timeout_ms = 20000

    def splits(self, tier):
        return ["staged", "active", "pausing", "paused", "canceling", "canceled"]

    def run_split(self, ctx, split):
        def thunk(e):
            seq, has, stat, n = fresh_sequence(e)
            stg, ready, hascomp, comp, m = fresh_staged(e)
            pn = z3.Int(S.fresh_name("n_ptrs"))
            e.assume(pn >= 0)
            ptr = z3.Function(S.fresh_name("ptr"), z3.IntSort(), z3.IntSort())
            ptrs = SList(pn, lambda j: SInt(ptr(seqlib.zidx(j))), "ptr_values")
            tasks = AbstractObj("tasks", values=Stub("values", lambda eng: ptrs))
            c, ws = cbase.new_conductor(st.RUNNING, staged=stg, sequence=seq, tasks=tasks)
            info = {"query": split}
            if split == "staged":
                res = e.call(conducting.WorkflowState.get_staged_tasks, [ws], {})
                # the code's selection predicate equals the specification's, index-wise; the result is an
                # order-preserving selection by construction of the comprehension model
                i = z3.Int(S.fresh_name("qi"))
                spec_pred = z3.And(ready(i), z3.Not(z3.And(hascomp(i), comp(i))))
                meta = res.meta
                if meta is None:
                    raise S.Unsupported("get_staged_tasks did not return an order-preserving selection of the staged list")
                code_pred = meta[0].pred(i)
                ctx.oblige("C01.S.ready_entries", z3.ForAll([i], z3.Implies(z3.And(0 <= i, i < m), code_pred == spec_pred)), None, info)
                hs = e.get_attr(ws, "has_staged_tasks")
                hz = e.zbool_of(hs) if not isinstance(hs, bool) else z3.BoolVal(hs)
                ctx.oblige("C01.S.ready_entries", hz == z3.Exists([i], z3.And(0 <= i, i < m, spec_pred)), None, info)
                hn = e.call(conducting.WorkflowConductor.has_next_tasks, [c], {})
                hnz = e.zbool_of(hn) if not isinstance(hn, bool) else z3.BoolVal(hn)
                ctx.oblige("C01.S.ready_entries", hnz == z3.Exists([i], z3.And(0 <= i, i < m, spec_pred)), None, info)
            else:
                sets = {"active": st.ACTIVE_STATUSES, "pausing": [st.PAUSING], "paused": [st.PAUSED, st.PENDING],
                        "canceling": [st.CANCELING], "canceled": [st.CANCELED]}[split]
                got = e.get_attr(ws, "has_%s_tasks" % split)
                gz = e.zbool_of(got) if not isinstance(got, bool) else z3.BoolVal(got)
                i = z3.Int(S.fresh_name("qi"))
                p = z3.Int(S.fresh_name("qp"))
                ids = [INTERN.id_of(s) for s in sets]
                want = z3.Exists([i, p], z3.And(0 <= i, i < n, 0 <= p, p < pn, ptr(p) == i, has(i),
                                               z3.Or([stat(i) == k for k in ids])))
                ctx.oblige("C02.S.status_facts", gz == want, None, info)
            ctx.canary()

        ctx.eng.explore(thunk)
