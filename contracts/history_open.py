"""History-level witnesses (continued): clauses over whole histories that no per-call contract of this
build decides, each with control histories that hold and the recorded histories that do not
(KNOWN-FINDING, excuse predicates in findings/excuses.py).  Every history is legitimate under the
provider protocol P1-P5 of DESIGN §3 (in particular every offered action is acknowledged before any
other call is made).  BOUNDED: concrete histories, native run through the public API."""
from orquesta import conducting, events, requests as rq
from orquesta.specs import native as native_specs
from contracts import specconst as st

from pyvc.framework import Unit


class Drive(object):
    def __init__(self, defn, inputs=None):
        spec = native_specs.WorkflowSpec(defn)
        errs = spec.inspect()
        assert not errs, errs
        self.c = conducting.WorkflowConductor(spec, inputs=inputs)
        self.c.request_workflow_status(st.RUNNING)
        self.started = []
        self.offers = []

    @property
    def status(self):
        return self.c.get_workflow_status()

    def offer(self):
        """get_next_tasks, acknowledging every offered action as running at once (P5)"""
        out = []
        for t in self.c.get_next_tasks():
            items = [a.get("item_id") for a in t["actions"] if a.get("item_id") is not None]
            out.append((t["id"], items))
            self.offers.append((t["id"], tuple(items)))
            if t["spec"].has_items() if hasattr(t.get("spec"), "has_items") else bool(items):
                for i in items:
                    self.c.update_task_state(t["id"], t["route"], events.TaskItemActionExecutionEvent(i, st.RUNNING))
            else:
                self.c.update_task_state(t["id"], t["route"], events.ActionExecutionEvent(st.RUNNING))
            self.started.append(t["id"])
        return out

    def done(self, tid, status=st.SUCCEEDED, result=None, route=0):
        self.c.update_task_state(tid, route, events.ActionExecutionEvent(status, result=result))

    def item(self, tid, i, status=st.SUCCEEDED, result=None, route=0):
        self.c.update_task_state(tid, route, events.TaskItemActionExecutionEvent(i, status, result=result))

    def output(self):
        self.c.render_workflow_output()
        return self.c.get_workflow_output()

    def drain(self, outcome=None, limit=40):
        """run to rest: start everything offered, complete everything running (in record order)"""
        outcome = outcome or {}
        for _ in range(limit):
            self.offer()
            running = [r for r in self.c.workflow_state.sequence if r.get("status") == st.RUNNING]
            if not running:
                break
            for r in running:
                self.done(r["id"], outcome.get(r["id"], st.SUCCEEDED), route=r["route"])


# ------------------------------------------------------------------------------------------------
CANCEL_SEQ = """
version: 1.0
vars:
  - a: null
output:
  - a: <% ctx(a) %>
tasks:
  A:
    action: core.noop
    next:
      - publish: a=<% result() %>
        do: B
  B:
    action: core.noop
"""


def h_canceled_output():
    out = []
    # control: cancel lands while B (which received a) runs
    d = Drive(CANCEL_SEQ); d.offer(); d.done("A", result="ra"); d.offer()
    d.c.request_workflow_status(st.CANCELING); d.done("B")
    out.append(("cancel-while-successor-runs", (d.status, d.output()), (st.CANCELED, {"a": "ra"}),
                "A published a=ra, B started, cancel, B reports"))
    # recorded: cancel lands while A runs; A still succeeds and publishes
    d = Drive(CANCEL_SEQ); d.offer(); d.c.request_workflow_status(st.CANCELING); d.done("A", result="ra")
    out.append(("cancel-while-publisher-runs", (d.status, d.output()), (st.CANCELED, {"a": "ra"}),
                "cancel requested while A runs; A succeeds and publishes a=ra on its transition to B, which the cancellation keeps from running"))
    return out


# ------------------------------------------------------------------------------------------------
ITEMS_TWO_INBOUND = """
version: 1.0
input:
  - xs
tasks:
  a:
    action: core.noop
    next:
      - do: t1
  b:
    action: core.noop
    next:
      - do: t1
  t1:
    with:
      items: <% ctx(xs) %>
      concurrency: 2
    action: core.echo message=<% item() %>
    next:
      - when: <% failed() %>
        do: t1
"""


def h_items_second_arrival():
    out = []
    for second_arrival_during_items in (False, True):
        d = Drive(ITEMS_TWO_INBOUND, inputs={"xs": ["p", "q", "r"]})
        d.offer()                                   # a, b running
        d.done("a")
        d.offer()                                   # t1 items 0, 1 offered and running
        if not second_arrival_during_items:
            for i in (0, 1):
                d.item("t1", i, result="x")
            d.offer()
            d.item("t1", 2, result="x")
        d.done("b")                                 # the second inbound transition reaches t1
        d.offer()
        item_offers = [o for o in d.offers if o[0] == "t1"]
        flat = [i for _, its in item_offers[:2] for i in its]
        name = "items/second-arrival-%s" % ("while-items-run" if second_arrival_during_items else "after-completion")
        if second_arrival_during_items:
            # the execution in flight keeps its items: nothing it has in flight is offered again
            out.append((name, sorted(flat) == sorted(set(flat)), True,
                        "b completes while items 0 and 1 of t1 (started by a's arrival) are running; offers of t1 so far: %s" % (item_offers,)))
        else:
            out.append((name, item_offers[0][1] == (0, 1), True, "control: a's visit of t1 finished before b arrives; offers: %s" % (item_offers,)))
    return out


# ------------------------------------------------------------------------------------------------
LOOP_FORK = """
version: 1.0
vars:
  - i: 0
tasks:
  init:
    action: core.noop
    next:
      - do: head
  head:
    action: core.noop
    next:
      - when: <% succeeded() %>
        publish: i=<% ctx().i + 1 %>
        do: [side, body]
  body:
    action: core.noop
    next:
      - when: <% succeeded() and ctx().i < 2 %>
        do: head
  side:
    action: core.noop
    next:
      - do: tail
  tail:
    action: core.noop
"""


def h_overlapping_iterations():
    out = []
    for slow_side in (False, True):
        d = Drive(LOOP_FORK)
        d.offer(); d.done("init"); d.offer(); d.done("head"); d.offer()       # side#1, body#1 running
        if not slow_side:
            d.done("side"); d.offer(); d.done("tail")
        d.done("body"); d.offer(); d.done("head")                              # head#2 completes
        d.drain()
        got = (d.started.count("side"), d.started.count("tail"), d.status)
        out.append(("loop-fork/%s" % ("side-of-iteration-1-still-running" if slow_side else "lock-step"), got, (2, 2, st.SUCCEEDED),
                    "two iterations of a loop that forks `side -> tail` out of it; side of iteration 1 %s when head of iteration 2 completes" % (
                        "is still running" if slow_side else "has finished")))
    return out


# ------------------------------------------------------------------------------------------------
FAIL_CMD = """
version: 1.0
tasks:
  task1:
    action: core.noop
    next:
      - when: <% succeeded() %>
        publish: x=1
        do: task2
      - when: <% failed() %>
        do: fail
  task2:
    action: core.noop
output:
  - x: <% ctx().x %>
"""


def h_default_rerun_commands():
    out = []
    d = Drive(FAIL_CMD); d.offer(); d.done("task1", st.FAILED)
    assert d.status == st.FAILED
    # control: explicit rerun of task1
    d.c.request_workflow_rerun(task_requests=[rq.TaskRerunRequest.new("task1", 0)])
    first = [t["id"] for t in d.c.get_next_tasks()]
    d.drain()
    out.append(("fail-command/explicit-rerun", (first, d.status, d.output()), (["task1"], st.SUCCEEDED, {"x": 1}),
                "task1 fails into the fail command; rerun of task1 by name, then everything succeeds"))
    d = Drive(FAIL_CMD); d.offer(); d.done("task1", st.FAILED)
    d.c.request_workflow_rerun()
    first = sorted(t["id"] for t in d.c.get_next_tasks())
    out.append(("fail-command/default-rerun", first, ["task1"],
                "task1 fails into the fail command; default rerun: only real tasks may be offered to the provider"))
    return out


# ------------------------------------------------------------------------------------------------
JOIN_RERUN = """
version: 1.0
vars:
  - a: null
  - b: null
tasks:
  task1:
    action: core.noop
    next:
      - when: <% succeeded() %>
        publish: a=<% result() %>
        do: task3
  task2:
    action: core.noop
    next:
      - when: <% succeeded() %>
        publish: b=<% result() %>
        do: task3
  task3:
    join: all
    action: core.echo message=<% ctx().a + ctx().b %>
output:
  - a: <% ctx().a %>
  - b: <% ctx().b %>
"""


def h_rerun_above_join():
    out = []
    for which in ("task3", "task1"):
        d = Drive(JOIN_RERUN); d.offer(); d.done("task1", result="A"); d.done("task2", result="B"); d.offer()
        d.done("task3", st.FAILED)
        assert d.status == st.FAILED
        d.c.request_workflow_rerun(task_requests=[rq.TaskRerunRequest.new(which, 0)])
        seen = []
        for _ in range(6):
            nxt = d.c.get_next_tasks()
            if not nxt:
                break
            for t in nxt:
                if t["id"] == "task3":
                    seen.append(t["actions"][0]["input"]["message"] if t["actions"] and t["actions"][0].get("input") else None)
                d.c.update_task_state(t["id"], t["route"], events.ActionExecutionEvent(st.RUNNING))
                d.c.update_task_state(t["id"], t["route"], events.ActionExecutionEvent(st.SUCCEEDED, result="A"))
        out.append(("join-rerun/%s" % which, (seen, d.status, d.output()), (["AB"], st.SUCCEEDED, {"a": "A", "b": "B"}),
                    "task1 and task2 publish a and b into join task3, which fails; rerun of %s; everything succeeds" % which))
    return out


# ------------------------------------------------------------------------------------------------
REMEDIATED = """
version: 1.0
vars:
  - path: null
tasks:
  b:
    action: core.noop
  k:
    action: core.noop
    next:
      - when: <% failed() %>
        publish: path="recovered"
        do: recover
      - when: <% succeeded() %>
        publish: path="normal"
        do: done
  recover:
    action: core.noop
  done:
    action: core.noop
output:
  - path: <% ctx().path %>
"""


def h_default_rerun_order():
    out = []
    for order in (("k", "b"), ("b", "k")):
        d = Drive(REMEDIATED); d.offer()
        for t in order:
            d.done(t, st.FAILED)
        d.drain()          # recover (if offered while the workflow is failed it is not) ...
        assert d.status == st.FAILED
        before = len(d.started)
        d.c.request_workflow_rerun()
        d.drain()
        out.append(("remediated/%s-reports-first" % order[0], (sorted(d.started[before:]), d.status, d.output()),
                    (["b", "recover"], st.SUCCEEDED, {"path": "recovered"}),
                    "b fails unhandled, k fails into recover; reports in order %s; default rerun, everything succeeds" % (order,)))
    return out


# ------------------------------------------------------------------------------------------------
ITEMS_SEQ = """
version: 1.0
input:
  - xs: [a, b]
tasks:
  t1:
    with:
      items: <% ctx(xs) %>
      concurrency: 1
    action: core.echo message=<% item() %>
"""


def h_resume_reaches_items():
    out = []
    for first_report in (st.RUNNING, st.REQUESTED):
        d = Drive(ITEMS_SEQ)
        d.offer()                                                  # item 0 running
        d.c.request_workflow_status(st.PAUSING)
        d.item("t1", 0, result="a")
        paused = d.status
        d.c.request_workflow_status(st.RESUMING)
        nxt = d.c.get_next_tasks()
        items = [a["item_id"] for t in nxt for a in t["actions"]]
        trace = []
        if items == [1]:
            if first_report != st.RUNNING:
                d.item("t1", 1, first_report); trace.append(d.status)
            d.item("t1", 1, st.RUNNING); trace.append(d.status)
            d.item("t1", 1, st.FAILED); trace.append(d.status)
        out.append(("items-resume/first-report-%s" % first_report, (paused, items, trace[-1:] and trace[-1], st.PAUSED in trace or st.PAUSING in trace),
                    (st.PAUSED, [1], st.FAILED, False),
                    "pause while item 0 runs, item 0 succeeds (paused), resume; item 1 is offered, acknowledged as %s, runs and fails: statuses %s" % (first_report, trace)))
    return out


# ------------------------------------------------------------------------------------------------
RESUME_TERM = """
version: 1.0
tasks:
  t0:
    action: core.noop
    next:
      - do: a0, b
  a0:
    action: core.noop
    next:
      - when: <% succeeded() %>
        publish:
          - y: <% result() %>
        do: a
  a:
    action: core.noop
    next:
      - when: <% succeeded() %>
        do: j
  b:
    action: core.noop
    next:
      - when: <% failed() %>
        do: j
  j:
    join: all
    action: core.noop
output:
  - y: <% ctx().y %>
"""


def h_completion_on_resume():
    res = {}
    for paused in (False, True):
        d = Drive(RESUME_TERM)
        d.offer(); d.done("t0"); d.offer(); d.done("a0", result="published by a0"); d.done("b"); d.offer()
        if paused:
            d.c.request_workflow_status(st.PAUSING)
        d.done("a")
        if paused:
            d.c.request_workflow_status(st.RESUMING)
        res[paused] = (d.status, d.output(), sorted(e["message"].split(":")[0] for e in d.c.errors))
    return [("pause-before-last-report/unreachable-join", res[True], res[False],
             "b succeeds without entering join j, a0 publishes y, a is the last task and enters j: unreachable join; the same history with a pause requested while a runs and a resume after it reported")]


# ================================================================================================
class _HistoryUnit(Unit):
    bounded = True
    trusted = ["CPython", "yaql"]
    functions = ["orquesta.conducting.WorkflowConductor.update_task_state", "orquesta.conducting.WorkflowConductor.get_next_tasks",
                 "orquesta.conducting.WorkflowConductor.request_workflow_status", "orquesta.conducting.WorkflowConductor.request_workflow_rerun",
                 "orquesta.conducting.WorkflowConductor.get_workflow_terminal_context"]
    scenarios = {}

    def run_split(self, ctx, split):
        def thunk(e):
            n = 0
            for obl, fn in self.scenarios.items():
                for name, got, want, detail in fn():
                    n += 1
                    ctx.oblige(obl, got == want, {"history": name},
                               {"history": name, "observed": got, "expected": want, "detail": detail})
            ctx.canary()
        ctx.eng.explore(thunk)
        ctx.bounded.append({"unit": self.name, "bound": "concrete histories"})


class OpenHistories(_HistoryUnit):
    name = "H.open_histories"
    scenarios = {
        "C10.hist.canceled_output_published": h_canceled_output,
        "C12.hist.items_kept_on_second_arrival": h_items_second_arrival,
        "C01.hist.overlapping_iterations": h_overlapping_iterations,
        "C17.hist.default_rerun_skips_commands": h_default_rerun_commands,
        "C17.hist.rerun_above_join": h_rerun_above_join,
        "C17.hist.default_rerun_order_independent": h_default_rerun_order,
        "C09.hist.resume_reaches_paused_items": h_resume_reaches_items,
        "C09.hist.completion_on_resume_same_outcome": h_completion_on_resume,
    }
    obligations = {
        "C10.hist.canceled_output_published": {"props": ["C10"], "text":
            "a canceled workflow renders its output from what was published: a value published on a taken transition is in the output whether or not the cancellation let the transition's target start"},
        "C12.hist.items_kept_on_second_arrival": {"props": ["C12", "C01"], "text":
            "a second inbound transition reaching a with-items task whose items are in flight does not make the conductor offer those items again"},
        "C01.hist.overlapping_iterations": {"props": ["C01"], "text":
            "a task forked out of a loop is executed once per iteration (and so is what follows it), also when its execution of the previous iteration is still running when the next iteration reaches it"},
        "C17.hist.default_rerun_skips_commands": {"props": ["C17", "C01"], "text":
            "a default rerun offers only real tasks: the record of an engine command (fail) is never re-staged and offered to the provider"},
        "C17.hist.rerun_above_join": {"props": ["C17"], "text":
            "rerunning one branch above a join that already ran re-executes the join with the other branch's publications still in its context, and converges to the clean outcome"},
        "C17.hist.default_rerun_order_independent": {"props": ["C17"], "text":
            "what a default rerun re-executes (the failed terminal tasks) does not depend on the order in which two failures were reported: a remediated task is not rerun"},
        "C09.hist.resume_reaches_paused_items": {"props": ["C09", "C12"], "text":
            "after pause and resume a with-items task continues with its remaining items however their start is acknowledged, and an item failure fails it as without the pause"},
        "C09.hist.completion_on_resume_same_outcome": {"props": ["C09"], "text":
            "a workflow that turns out complete (here: failed on an unreachable join) when resumed has the status, output and errors of the same history without the pause"},
    }
    assumptions = ["BOUNDED: 15 concrete histories on 8 definitions (native run through the public API); every offered action is acknowledged as running at once (P5) unless the history says otherwise"]


# ================================================================================================
# witnesses written by the bug-hunt sub-agents (§9.8), run as they were delivered
# ================================================================================================
HUNT = {
    "F53": ("C02.hunt.succeeded_after_partial_rerun", ["C02", "C17"],
            "a workflow never reports succeeded while a task failure stays unhandled - also after a rerun of only some of the failed tasks"),
    "F54": ("C06.hunt.output_newer_value_wins", ["C06"],
            "the workflow output takes the newer value of a variable over one that another terminal branch merely inherited, whatever the completion order"),
    "F55": ("C06.hunt.output_follows_terminal_contexts", ["C06", "C04"],
            "the output reflects what the terminal tasks published, also when the provider rendered it once already when the workflow failed and the documented clean-up task published afterwards"),
    "F56": ("C18.hunt.retry_sees_what_first_attempt_saw", ["C18", "C13"],
            "a retried attempt is rendered with the context its record holds: a branch arriving while the task waits for its retry does not change what the retry sees"),
    "F57": ("C18.hunt.rerun_drops_superseded_successors", ["C18", "C17"],
            "an explicit rerun does not leave the superseded execution's staged successors behind: the successor runs once, after the rerun execution, on its own record"),
    "F58": ("C07.hunt.join_held_back_by_rerun", ["C07", "C17"],
            "a join that was ready but had not started is held back when a branch above it is rerun: it runs once, after the new execution of that branch"),
    "F59": ("C16.hunt.jinja_dot_key_named_like_method", ["C16", "C19"],
            "a value under a key named items / keys / values / get reaches the action input and the output through the Jinja dot form, as it does through YAQL"),
    "F60": ("C14.hunt.retry_command_vs_policy", ["C14", "C13"],
            "a declared retry policy is not silently replaced by a `do: retry` command of the same task (nor one retry command by another): the graph carries what is declared or the definition is rejected"),
    "F61": ("C20.hunt.expression_action_with_inline_params", ["C20"],
            "an action given as an expression followed by inline parameters means the same as the action plus an input mapping"),
    "F62": ("C20.hunt.inline_numbers_all_spellings", ["C20"],
            "an inline number in exponent, hex, underscore or leading-dot / plus spelling means what the same token means in the long form (or the parameter is rejected), never a silently truncated prefix"),
    "F63": ("C20.hunt.inline_bracket_values", ["C20", "C06"],
            "an inline [..] value ends at its closing bracket: the parameters after it are parsed, and a list of strings is a list as in the long form"),
    "F65": ("C11.hunt.retry_expression_error_on_rerun", ["C11", "C17"],
            "a retry count / delay expression that fails when a rerun re-evaluates it fails the workflow (it does not resume and drop the retry policy)"),
    "F66": ("C07.hunt.rerun_above_split_same_route", ["C07", "C17"],
            "a rerun from above a split re-executes on the route of the original execution, so its half-satisfied join on that route is satisfied instead of failing the workflow"),
    "F67": ("C07.hunt.unreachable_error_withdrawn_by_rerun", ["C07", "C17"],
            "the unreachable-join error does not outlive the rerun that satisfies the join"),
    "F73": ("C15.hunt.malformed_delimiters_reported", ["C15"],
            "inspection reports an expression whose delimiters are broken or unterminated, or that spans two lines, instead of accepting it as a literal string"),
    "F68": ("C18.hunt.rerun_record_is_what_ran", ["C18", "C17"],
            "the record a rerun appends says what the rerun execution ran with: a branch arriving before the rerun starts is reflected in the record, not only in the staged entry"),
}


class HuntWitnesses(Unit):
    bounded = True
    name = "H.hunt_witnesses"
    functions = ["orquesta.conducting.WorkflowConductor (public API)", "orquesta.specs.native.v1.models (public API)",
                 "orquesta.expressions (public API)", "orquesta.utils.parameters.parse_inline_params"]
    obligations = {name: {"props": props, "text": text} for (name, props, text) in HUNT.values()}
    assumptions = ["BOUNDED: one concrete demonstration per obligation, written by an independent sub-agent from the property text alone, run natively in a fresh interpreter against the tree under check (exit 0 = the clause holds on that demonstration)"]
    trusted = ["CPython", "yaql", "jinja2", "the sub-agents' scripts (findings/hunt/open_F*.py), kept as delivered"]

    def splits(self, tier):
        return sorted(HUNT)

    def run_split(self, ctx, split):
        import os, subprocess, sys
        import orquesta
        root = os.path.dirname(os.path.dirname(os.path.abspath(orquesta.__file__)))
        verif = os.path.dirname(os.path.dirname(os.path.abspath(__file__)))
        script = os.path.join(verif, "findings", "hunt", "open_%s.py" % split)
        name = HUNT[split][0]

        def thunk(e):
            env = dict(os.environ, VERIF_REPO=root, PYTHONPATH=root, PYTHONHASHSEED="0")
            r = subprocess.run([sys.executable, script], cwd=root, env=env, capture_output=True, text=True, timeout=300)
            tail = (r.stdout + r.stderr).strip().splitlines()[-3:]
            ok = r.returncode == 0
            if r.returncode not in (0, 1):
                raise RuntimeError("witness %s crashed (exit %d): %s" % (split, r.returncode, tail))
            ctx.oblige(name, ok, {"history": "hunt/%s" % split}, {"history": "hunt/%s" % split, "script": "findings/hunt/open_%s.py" % split,
                                                                  "exit": r.returncode, "tail": tail})
            ctx.canary()
        ctx.eng.explore(thunk)
        ctx.bounded.append({"unit": self.name, "bound": "one demonstration (%s)" % split})
