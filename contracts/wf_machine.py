"""Layer M: contracts on orquesta.machines.WorkflowStateMachine (the workflow status table and its
two contextualisers), proved for every current status x event with all workflow-state facts
symbolic (universally quantified)."""
import z3

from orquesta import events, exceptions as exc, machines
from contracts import specconst as st

from pyvc import sym as S
from pyvc.engine import AbstractObj, Raised, Stub
from pyvc.framework import Unit
from pyvc.spec import AND, OR, NOT, IMPLIES, IFF, EQ, NE, IN, NOTIN

FACTS = ["A", "SG", "HN", "BN", "CG", "CD", "PG", "PD", "UB", "RS"]
FACT_DOC = {
    "A": "has_active_tasks", "SG": "has_staged_tasks (ready, not completed)",
    "HN": "has_next_tasks(task, route)", "BN": "has_barrier_next(task, route)",
    "CG": "has_canceling_tasks", "CD": "has_canceled_tasks", "PG": "has_pausing_tasks",
    "PD": "has_paused_tasks (paused or pending)", "UB": "get_unreachable_barriers() non-empty",
    "RS": "raw staged list non-empty (includes not-ready joins and completed-flagged with-items entries)",
}


def wf_statuses():
    return list(machines.WORKFLOW_STATE_MACHINE_DATA.keys())


def task_reportable_statuses():
    """Statuses a task record can carry when the workflow machine is consulted: every value the
    task table can produce (computed from the real table on every run)."""
    vals = []
    for row in machines.TASK_STATE_MACHINE_DATA.values():
        for v in row.values():
            if v not in vals:
                vals.append(v)
    return vals


def make_ws(e, old, F, log):
    cond = AbstractObj("conductor", log_error=Stub(
        "log_error", lambda eng, err, **kw: log.append((err, kw))))

    def gub(eng):
        if eng.branch(F["UB"].z):
            return [{"id": "join_task", "route": 0}]
        return []

    RS = F.get("RS")

    def raw_staged(eng, obj=None):
        # raw staged list: non-empty iff RS (ready entries imply a non-empty raw list: link SG => RS)
        if RS is None:
            raise S.Unsupported("raw staged list has no contract in this unit")
        return [{"id": "staged_task", "route": 0, "ready": F["SG"]}] if eng.branch(RS.z) else []

    def get_staged_tasks(eng, filtered=True):
        if not filtered:
            return raw_staged(eng)
        return [{"id": "staged_task", "route": 0, "ready": True}] if eng.branch(F["SG"].z) else []

    return AbstractObj(
        "workflow_state", status=old, conductor=cond, staged=property(raw_staged),
        get_staged_tasks=Stub("get_staged_tasks", get_staged_tasks),
        has_active_tasks=F["A"], has_staged_tasks=F["SG"], has_canceling_tasks=F["CG"],
        has_canceled_tasks=F["CD"], has_pausing_tasks=F["PG"], has_paused_tasks=F["PD"],
        has_next_tasks=Stub("has_next_tasks", lambda eng, *a, **k: F["HN"]),
        has_barrier_next=Stub("has_barrier_next", lambda eng, *a, **k: F["BN"]),
        get_unreachable_barriers=Stub("get_unreachable_barriers", gub))


class NativeWS(object):
    """Native stand-in carrying the model's facts, for counterexample replay on the real code."""

    def __init__(self, status, F):
        self.status = status
        self.F = F
        self.logged = []
        self.conductor = self

    def log_error(self, e, **kw):
        self.logged.append((type(e).__name__, kw))

    has_active_tasks = property(lambda s: s.F["A"])
    has_staged_tasks = property(lambda s: s.F["SG"])
    has_canceling_tasks = property(lambda s: s.F["CG"])
    has_canceled_tasks = property(lambda s: s.F["CD"])
    has_pausing_tasks = property(lambda s: s.F["PG"])
    has_paused_tasks = property(lambda s: s.F["PD"])

    def has_next_tasks(self, *a, **k):
        return self.F["HN"]

    def has_barrier_next(self, *a, **k):
        return self.F["BN"]

    def get_unreachable_barriers(self):
        return [{"id": "join_task", "route": 0}] if self.F["UB"] else []

    @property
    def staged(self):
        return [{"id": "staged_task", "route": 0, "ready": self.F["SG"]}] if self.F["RS"] else []

    def get_staged_tasks(self, filtered=True):
        if not filtered:
            return self.staged
        return [{"id": "staged_task", "route": 0, "ready": True}] if self.F["SG"] else []


# ------------------------------------------------------------------------------------------------
# clauses (taken from the property statements; v: dict of named values)
# ------------------------------------------------------------------------------------------------
def links(v):
    """requires: the reporting task's record already carries ev.status when the machine is
    consulted (proved at the call site: C02.uts.links), plus INV-ST on the pre-state."""
    ev, old = v["ev"], v["old"]
    return AND(
        IMPLIES(IN(ev, st.ACTIVE_STATUSES), v["A"]),
        IMPLIES(EQ(ev, st.PAUSING), v["PG"]),
        IMPLIES(IN(ev, [st.PAUSED, st.PENDING]), v["PD"]),
        IMPLIES(EQ(ev, st.CANCELING), v["CG"]),
        IMPLIES(EQ(ev, st.CANCELED), v["CD"]),
        IMPLIES(v["SG"], v["RS"]) if "RS" in v else True,
        # fact consistency (S layer): a canceling / pausing task is an active task
        IMPLIES(v["CG"], v["A"]) if st.CANCELING in st.ACTIVE_STATUSES else True,
        IMPLIES(v["PG"], v["A"]) if st.PAUSING in st.ACTIVE_STATUSES else True,
        # INV-ST (pre): a resting workflow has no active task other than possibly the reporter
        IMPLIES(IN(old, [st.PAUSED, st.CANCELED, st.SUCCEEDED]),
                OR(NOT(v["A"]), IN(ev, st.ACTIVE_STATUSES))),
        IMPLIES(EQ(old, st.SUCCEEDED), NOT(v["SG"])),
        # a retrying task has just been re-staged ready (C13.uts.restaged_with_delay)
        IMPLIES(EQ(ev, st.RETRYING), v["SG"]),
        # BN without HN: a satisfied transition into a join whose inbound criteria can no longer be
        # met; that join is staged-not-ready, i.e. an unreachable barrier
        IMPLIES(AND(v["BN"], NOT(v["HN"]), IN(ev, st.COMPLETED_STATUSES)), v["UB"]),
    )


HANDLED = lambda v: OR(v["HN"], v["BN"])
RUNNINGISH = [st.RUNNING, st.RESUMING]


def c02_succeeded_justified(v):
    return IMPLIES(
        AND(EQ(v["new"], st.SUCCEEDED), NE(v["old"], st.SUCCEEDED)),
        AND(NOT(v["A"]), NOT(v["SG"]), NOT(v["HN"]), NOT(v["UB"]), NOT(v["CG"]), NOT(v["CD"]),
            NOT(v["PG"]), NOT(v["PD"]),
            OR(EQ(v["ev"], st.SUCCEEDED), AND(IN(v["ev"], st.ABENDED_STATUSES), HANDLED(v)))))


STARTS = [st.REQUESTED, st.SCHEDULED, st.DELAYED, st.RUNNING, st.RESUMING]


def c02_paused_canceled_dormant(v):
    """paused / canceled are only entered with nothing in flight; and a paused workflow in which a task
    starts (it was offered beside a task that then went pending, or it is resumed by the provider),
    however the start is acknowledged, does not go on reporting paused"""
    return AND(IMPLIES(AND(IN(v["new"], [st.PAUSED, st.CANCELED]), NE(v["new"], v["old"])), NOT(v["A"])),
               IMPLIES(AND(EQ(v["old"], st.PAUSED), IN(v["ev"], STARTS), NOT(v["raised"])), NE(v["new"], st.PAUSED)))


def c02_ing_active(v):
    return IMPLIES(AND(IN(v["new"], [st.PAUSING, st.CANCELING]), NOT(v["raised"])), v["A"])


def c02_unhandled_failure_fails(v):
    unhandled = AND(IN(v["ev"], st.ABENDED_STATUSES), NOT(HANDLED(v)))
    return AND(
        IMPLIES(AND(unhandled, IN(v["old"], [st.RUNNING, st.PAUSING, st.PAUSED, st.RESUMING])),
                AND(NOT(v["raised"]), EQ(v["new"], st.FAILED))),
        IMPLIES(AND(unhandled, EQ(v["old"], st.CANCELING)),
                AND(NOT(v["raised"]), IN(v["new"], [st.CANCELING, st.CANCELED]))))


def c02_no_internal_error(v):
    return NOT(v["raised"])


def c07_unreachable_fails(v):
    """would otherwise finish while a partially satisfied join can no longer be satisfied =>
    failed with one unreachable-join error per barrier, instead of succeeding"""
    would_succeed = AND(
        IN(v["old"], RUNNINGISH), NOT(v["A"]), NOT(v["SG"]), NOT(v["HN"]), NOT(v["CG"]), NOT(v["CD"]),
        NOT(v["PG"]), NOT(v["PD"]),
        OR(EQ(v["ev"], st.SUCCEEDED), AND(IN(v["ev"], st.ABENDED_STATUSES), HANDLED(v))))
    return AND(
        IMPLIES(AND(would_succeed, v["UB"]),
                AND(EQ(v["new"], st.FAILED), EQ(v["n_logged"], 1), v["logged_unreachable"])),
        IMPLIES(AND(v["UB"], NE(v["old"], st.SUCCEEDED)), NE(v["new"], st.SUCCEEDED)))


def c03_quiescent_resting(v):
    return IMPLIES(
        AND(IN(v["ev"], st.COMPLETED_STATUSES + [st.PAUSED, st.PENDING]),
            IN(v["old"], [st.RUNNING, st.RESUMING, st.PAUSING, st.CANCELING]),
            NOT(v["A"]), NOT(v["SG"]), NOT(v["HN"])),
        AND(NOT(v["raised"]), IN(v["new"], [st.SUCCEEDED, st.FAILED, st.CANCELED, st.PAUSED])))


def c03_paused_only_after_pause(v):
    """paused only following a pause request or a paused or pending task"""
    return IMPLIES(AND(EQ(v["new"], st.PAUSED), NE(v["old"], st.PAUSED)),
                   OR(EQ(v["old"], st.PAUSING), v["PD"], v["PG"]))


def c04_terminal_rows(v):
    return AND(
        IMPLIES(IN(v["old"], [st.FAILED, st.CANCELED, st.SUCCEEDED]), EQ(v["new"], v["old"])),
        IMPLIES(IN(v["old"], [st.FAILED, st.CANCELED, st.SUCCEEDED]), EQ(v["n_logged"], 0)))


def c04_late_report_absorbed(v):
    return IMPLIES(IN(v["old"], [st.FAILED, st.CANCELED, st.SUCCEEDED]), NOT(v["raised"]))


def c09_paused_exactly_when_last_reports(v):
    no_cancel = AND(NOT(v["CG"]), NOT(v["CD"]))
    quiet_ev = OR(EQ(v["ev"], st.SUCCEEDED), IN(v["ev"], [st.PAUSED, st.PENDING, st.RETRYING]),
                  AND(IN(v["ev"], st.ABENDED_STATUSES), HANDLED(v)))
    return IMPLIES(AND(EQ(v["old"], st.PAUSING), quiet_ev, no_cancel, NOT(v["UB"])),
                   AND(IMPLIES(NOT(v["A"]), EQ(v["new"], st.PAUSED)),
                       IMPLIES(v["A"], EQ(v["new"], st.PAUSING))))


def c09_no_progress_while_pausing(v):
    """while pausing/paused a task event never moves the workflow back to a running status,
    except a task that itself (re)starts - acknowledged as requested, scheduled, delayed, running or
    resuming - while the workflow is paused: then an action is in flight and paused would be untrue"""
    return AND(
        IMPLIES(EQ(v["old"], st.PAUSING), NOTIN(v["new"], [st.RUNNING, st.RESUMING, st.SUCCEEDED])),
        IMPLIES(AND(EQ(v["old"], st.PAUSED), NOTIN(v["ev"], STARTS)),
                NOTIN(v["new"], [st.RUNNING, st.RESUMING, st.SUCCEEDED])))


def c10_canceling_rows(v):
    return IMPLIES(AND(EQ(v["old"], st.CANCELING), NOT(v["raised"])),
                   AND(IMPLIES(v["A"], EQ(v["new"], st.CANCELING)),
                       IMPLIES(NOT(v["A"]), EQ(v["new"], st.CANCELED))))


def c10_never_succeeded_or_resumed(v):
    return IMPLIES(IN(v["old"], [st.CANCELING, st.CANCELED]),
                   IN(v["new"], [st.CANCELING, st.CANCELED]))


def c10_not_failed_by_cancellation(v):
    """a cancellation in progress (workflow canceling, or a canceled/canceling task with the
    reporting task not itself an unhandled failure) never ends failed because of an unreachable join"""
    cancel_in_progress = OR(EQ(v["old"], st.CANCELING),
                            AND(OR(v["CG"], v["CD"]), IN(v["old"], RUNNINGISH + [st.PAUSING])))
    not_a_failure = OR(NOTIN(v["ev"], st.ABENDED_STATUSES), HANDLED(v))
    return IMPLIES(AND(cancel_in_progress, not_a_failure, NE(v["old"], st.FAILED)),
                   NE(v["new"], st.FAILED))


def c02_frame_errors(v):
    """errors are logged by the workflow machine only for unreachable joins"""
    return IMPLIES(NOT(v["UB"]), EQ(v["n_logged"], 0))


PTE_OBLIGATIONS = {
    "C02.pte.succeeded_justified": (["C02"], c02_succeeded_justified,
        "status becomes succeeded only if nothing is active/staged/next/unreachable, no paused or canceled task, and the reporting task succeeded or its failure was handled"),
    "C02.pte.paused_canceled_dormant": (["C02", "C09", "C10"], c02_paused_canceled_dormant,
        "status becomes paused/canceled only with no active task; a paused workflow in which a task starts (acknowledged as requested, scheduled, delayed, running or resuming) no longer reports paused"),
    "C02.pte.ing_active": (["C02", "C09", "C10"], c02_ing_active,
        "after a task event, pausing/canceling implies an active task"),
    "C02.pte.unhandled_failure_fails": (["C02", "C09"], c02_unhandled_failure_fails,
        "unhandled task failure / fail command => failed (canceling => canceling/canceled)"),
    "C02.pte.no_internal_error": (["C02", "C15", "C04"], c02_no_internal_error,
        "no exception for any status the task table can produce"),
    "C02.pte.frame_errors": (["C02"], c02_frame_errors,
        "the workflow machine logs errors only for unreachable joins"),
    "C07.pte.unreachable_fails": (["C07", "C02"], c07_unreachable_fails,
        "would-succeed with an unreachable barrier => failed + one UnreachableJoinError per barrier, never succeeded"),
    "C03.pte.quiescent_resting": (["C03"], c03_quiescent_resting,
        "completed/paused/pending report with nothing active, staged or next => resting status"),
    "C03.pte.paused_only_after_pause": (["C03"], c03_paused_only_after_pause,
        "paused is reached only from pausing or with a paused/pending/pausing task"),
    "C04.pte.terminal_rows": (["C04"], c04_terminal_rows,
        "task events never change a terminal status nor log errors"),
    "C04.pte.late_report_absorbed": (["C04"], c04_late_report_absorbed,
        "late reports on a terminal workflow raise nothing"),
    "C09.pte.paused_exactly_when_last_reports": (["C09"], c09_paused_exactly_when_last_reports,
        "from pausing: paused iff no action is active any more"),
    "C09.pte.no_progress_while_pausing": (["C09"], c09_no_progress_while_pausing,
        "task events never resume a pausing/paused workflow (except a task itself restarting)"),
    "C10.pte.canceling_rows": (["C10"], c10_canceling_rows,
        "from canceling: canceling while active, canceled as soon as dormant, whatever the outcome"),
    "C10.pte.never_succeeded_or_resumed": (["C10"], c10_never_succeeded_or_resumed,
        "canceling/canceled never becomes any other status through task events"),
    "C10.pte.not_failed_by_cancellation": (["C10"], c10_not_failed_by_cancellation,
        "a cancellation in progress is not turned into failed by the unreachable-join check"),
}


class ProcessTaskEvent(Unit):
    name = "M.process_task_event"
    functions = [
        "orquesta.machines.WorkflowStateMachine.process_task_event",
        "orquesta.machines.WorkflowStateMachine.add_context_to_task_event",
        "orquesta.events.TaskExecutionEvent.__init__",
        "orquesta.events.ExecutionEvent.__init__",
    ]
    obligations = {k: {"props": p, "text": t} for k, (p, _, t) in PTE_OBLIGATIONS.items()}
    assumptions = [
        "workflow-state facts %s are symbolic booleans; their definitions are proved equal to the real query methods in layer S" % ", ".join("%s=%s" % (k, FACT_DOC[k]) for k in FACTS),
        "links (requires): the reporting task's latest record carries ev.status (C02.uts.links); pre-state INV-ST; retrying task re-staged (C13); BN and not HN at a completed report implies an unreachable barrier",
        "exc.UnreachableJoinError construction and conductor.log_error are effect-free apart from appending to errors",
        "LOG.* calls dropped",
    ]
    trusted = ["z3 5.1", "pyvc interpreter (cross-checked against CPython on every path in this unit)"]

    def splits(self, tier):
        return [(o, e) for o in wf_statuses() for e in task_reportable_statuses() + [st.UNSET]]

    def build(self, e, old_c, ev_c):
        old = e.register_input("old", old_c)
        ev = e.register_input("ev", ev_c)
        F = {k: e.register_input(k, S.mk_bool(k)) for k in FACTS}
        return old, ev, F

    def run_split(self, ctx, split):
        old_c, ev_c = split
        eng = ctx.eng
        first = [True]

        def thunk(e):
            old, ev, F = self.build(e, old_c, ev_c)
            v = {"old": old, "ev": ev}
            v.update(F)
            e.assume(links(v))
            log = []
            ws = make_ws(e, old, F, log)
            event = e.call(events.TaskExecutionEvent, ["t1", 0, ev], {})
            raised = None
            try:
                e.call(machines.WorkflowStateMachine.process_task_event, [ws, event], {})
            except Raised as r:
                raised = r
            v["new"] = ws._attrs["status"]
            v["raised"] = raised is not None
            v["n_logged"] = len(log)
            v["logged_unreachable"] = all(
                getattr(x[0], "cls", type(x[0])) is exc.UnreachableJoinError
                and x[1].get("task_id") == "join_task" for x in log)
            if first[0]:
                ctx.canary()
                first[0] = False
            reportable = ev_c != st.UNSET
            for name, (props, fn, text) in PTE_OBLIGATIONS.items():
                if name in ("C02.pte.no_internal_error", "C04.pte.late_report_absorbed",
                            "C03.pte.quiescent_resting", "C02.pte.unhandled_failure_fails") and not reportable:
                    continue
                ctx.oblige(name, fn(v), v, info={"old": old_c, "ev": ev_c})
            ctx.crosscheck({"new": v["new"], "raised": raised.cls.__name__ if raised else None,
                            "n_logged": len(log)}, rate=1.0 if ctx.tier == "thorough" else 0.25)

        eng.explore(thunk)

    def native(self, inputs):
        F = {k: inputs[k] for k in FACTS}
        ws = NativeWS(inputs["old"], F)
        ev = events.TaskExecutionEvent("t1", 0, inputs["ev"])
        raised = None
        try:
            machines.WorkflowStateMachine.process_task_event(ws, ev)
        except Exception as e:
            raised = type(e).__name__
        return {"new": ws.status, "raised": raised, "n_logged": len(ws.logged),
                "logged_unreachable": all(x[0] == "UnreachableJoinError" for x in ws.logged)}

    def clause(self, name):
        return PTE_OBLIGATIONS[name][1]


# ================================================================================================
# process_workflow_event (status requests)
# ================================================================================================
WFACTS = ["A", "SG", "PD", "RS", "UB"]


def pwe_links(v, paused_may_be_active=False):
    """INV-ST on the pre-state: a resting workflow has no active task (no reporting task here).

    A *paused* workflow can have an active task: a task offered just before the pause may still report
    requested/scheduled/delayed, which the paused row ignores.  The completion-on-resume clauses are
    therefore also proved without that conjunct (paused_may_be_active=True)."""
    resting = [st.CANCELED, st.SUCCEEDED, st.UNSET, st.REQUESTED, st.SCHEDULED, st.DELAYED]
    if not paused_may_be_active:
        resting = [st.PAUSED] + resting
    return AND(
        IMPLIES(IN(v["old"], resting), NOT(v["A"])),
        IMPLIES(IN(v["old"], [st.PAUSING, st.CANCELING]), v["A"]),
        IMPLIES(EQ(v["old"], st.SUCCEEDED), NOT(v["SG"])),
        IMPLIES(v["SG"], v["RS"]),
    )


def w02_succeeded_justified(v):
    return IMPLIES(
        AND(EQ(v["new"], st.SUCCEEDED), NE(v["old"], st.SUCCEEDED)),
        OR(AND(EQ(v["old"], st.PAUSED), IN(v["req"], [st.RUNNING, st.RESUMING]),
               NOT(v["A"]), NOT(v["SG"]), NOT(v["PD"]), NOT(v["UB"])),
           # P4: a provider forcing `succeeded` on a running workflow is outside the quantifier
           AND(EQ(v["req"], st.SUCCEEDED), EQ(v["old"], st.RUNNING))))


def w02_paused_canceled_dormant(v):
    return IMPLIES(AND(IN(v["new"], [st.PAUSED, st.CANCELED]), NE(v["new"], v["old"])), NOT(v["A"]))


def w02_ing_active(v):
    return IMPLIES(AND(IN(v["new"], [st.PAUSING, st.CANCELING]), NOT(v["raised"])), v["A"])


def w03_resume_completed(v):
    finished = AND(NOT(v["A"]), NOT(v["SG"]), NOT(v["PD"]))
    return IMPLIES(
        AND(EQ(v["old"], st.PAUSED), IN(v["req"], [st.RUNNING, st.RESUMING])),
        AND(NOT(v["raised"]),
            IMPLIES(AND(finished, NOT(v["UB"])), EQ(v["new"], st.SUCCEEDED)),
            IMPLIES(AND(finished, v["UB"]), AND(EQ(v["new"], st.FAILED), EQ(v["n_logged"], 1))),
            IMPLIES(NOT(finished), AND(EQ(v["new"], v["req"]), EQ(v["n_logged"], 0)))))


def w04_terminal_rows(v):
    return AND(
        IMPLIES(IN(v["old"], [st.FAILED, st.CANCELED]), EQ(v["new"], v["old"])),
        IMPLIES(EQ(v["old"], st.SUCCEEDED),
                OR(EQ(v["new"], st.SUCCEEDED), AND(EQ(v["new"], st.FAILED), EQ(v["req"], st.FAILED)))))


def w09_pause_request(v):
    return IMPLIES(
        AND(IN(v["old"], [st.RUNNING, st.RESUMING, st.PAUSING]), IN(v["req"], st.PAUSE_STATUSES)),
        AND(NOT(v["raised"]),
            IMPLIES(v["A"], EQ(v["new"], st.PAUSING)), IMPLIES(NOT(v["A"]), EQ(v["new"], st.PAUSED))))


def w09_resume_request(v):
    """resume from pausing/paused goes to the requested running status (or completes, C03)"""
    return IMPLIES(AND(EQ(v["old"], st.PAUSING), IN(v["req"], [st.RUNNING, st.RESUMING])),
                   AND(NOT(v["raised"]), EQ(v["new"], v["req"])))


def w10_cancel_request(v):
    return IMPLIES(
        AND(IN(v["old"], [st.RUNNING, st.RESUMING, st.PAUSING, st.PAUSED, st.CANCELING,
                           st.REQUESTED, st.SCHEDULED, st.DELAYED]),
            IN(v["req"], st.CANCEL_STATUSES)),
        AND(NOT(v["raised"]),
            IMPLIES(v["A"], EQ(v["new"], st.CANCELING)), IMPLIES(NOT(v["A"]), EQ(v["new"], st.CANCELED))))


def w10_cancel_sticky(v):
    return IMPLIES(IN(v["old"], [st.CANCELING, st.CANCELED]),
                   OR(IN(v["new"], [st.CANCELING, st.CANCELED]),
                      AND(EQ(v["old"], st.CANCELING), EQ(v["req"], st.FAILED), EQ(v["new"], st.FAILED))))


def w02_fail_request(v):
    """a runtime error (the engine requests failed) always ends in failed unless canceled"""
    return IMPLIES(AND(EQ(v["req"], st.FAILED), NE(v["old"], st.CANCELED)),
                   AND(NOT(v["raised"]), EQ(v["new"], st.FAILED)))


P4_REQUESTS = [st.REQUESTED, st.SCHEDULED, st.DELAYED, st.RUNNING, st.PAUSING, st.PAUSED, st.RESUMING,
               st.SUCCEEDED, st.FAILED, st.CANCELING, st.CANCELED]


def w02_no_internal_error(v):
    """requests for a workflow status raise nothing inside the machine (rejection is decided by
    request_workflow_status); statuses that are not workflow statuses (pending, retrying, timeout,
    abandoned, null) may be refused with InvalidEvent"""
    return IMPLIES(IN(v["req"], P4_REQUESTS), NOT(v["raised"]))


def w_change_is_requested(v):
    """a status request never yields a status other than the one the lifecycle prescribes for it"""
    allowed = {
        st.PAUSING: [st.PAUSING, st.PAUSED], st.PAUSED: [st.PAUSING, st.PAUSED],
        st.CANCELING: [st.CANCELING, st.CANCELED], st.CANCELED: [st.CANCELING, st.CANCELED],
        st.RUNNING: [st.RUNNING, st.SUCCEEDED], st.RESUMING: [st.RESUMING, st.SUCCEEDED],
    }
    cl = []
    # a completion discovered by the request fails instead when a partially satisfied join is unreachable
    ub_fail = AND(v["UB"], EQ(v["new"], st.FAILED))
    for req, outs in allowed.items():
        extra = ub_fail if st.SUCCEEDED in outs else False
        cl.append(IMPLIES(AND(EQ(v["req"], req), NE(v["new"], v["old"])), OR(IN(v["new"], outs), extra)))
    cl.append(IMPLIES(AND(NOTIN(v["req"], list(allowed)), NE(v["new"], v["old"])),
                      OR(EQ(v["new"], v["req"]), AND(EQ(v["req"], st.SUCCEEDED), ub_fail))))
    return AND(*cl)


PWE_OBLIGATIONS = {
    "C02.pwe.succeeded_justified": (["C02", "C03", "C01"], w02_succeeded_justified,
        "a status request yields succeeded only as completion-on-resume of a finished paused workflow"),
    "C02.pwe.paused_canceled_dormant": (["C02", "C09", "C10"], w02_paused_canceled_dormant,
        "a request yields paused/canceled only with no active task"),
    "C02.pwe.ing_active": (["C02", "C09", "C10"], w02_ing_active,
        "after a request, pausing/canceling implies an active task"),
    "C02.pwe.fail_request": (["C02", "C11"], w02_fail_request,
        "an engine request for failed always ends failed unless the workflow is canceled"),
    "C02.pwe.no_internal_error": (["C02", "C15"], w02_no_internal_error,
        "process_workflow_event raises nothing for any valid status request"),
    "C02.pwe.change_is_requested": (["C02", "C04"], w_change_is_requested,
        "a request changes the status only to the requested status or its lifecycle-prescribed variant"),
    "C03.pwe.resume_completed": (["C03", "C09", "C07", "C01"], w03_resume_completed,
        "resume of a finished paused workflow completes it (failed with one UnreachableJoinError per barrier if a partially satisfied join can no longer run); otherwise the requested running status"),
    "C04.pwe.terminal_rows": (["C04"], w04_terminal_rows,
        "failed/canceled are final; succeeded changes only to failed on an explicit failed request"),
    "C09.pwe.pause_request": (["C09"], w09_pause_request,
        "pause request: pausing while active, paused when dormant"),
    "C09.pwe.resume_request": (["C09"], w09_resume_request,
        "resume request from pausing is accepted"),
    "C10.pwe.cancel_request": (["C10"], w10_cancel_request,
        "cancel request from any non-terminal status: canceling while active, canceled when dormant"),
    "C10.pwe.cancel_sticky": (["C10"], w10_cancel_sticky,
        "no request moves a canceling/canceled workflow anywhere but canceling/canceled (failed only by an explicit engine failure while canceling)"),
}


class ProcessWorkflowEvent(Unit):
    name = "M.process_workflow_event"
    functions = [
        "orquesta.machines.WorkflowStateMachine.process_workflow_event",
        "orquesta.machines.WorkflowStateMachine.add_context_to_workflow_event",
        "orquesta.events.WorkflowExecutionEvent.__init__",
    ]
    obligations = {k: {"props": p, "text": t} for k, (p, _, t) in PWE_OBLIGATIONS.items()}
    assumptions = [
        "workflow-state facts A, SG, PD symbolic (definitions proved in layer S)",
        "pre-state INV-ST: resting/unstarted workflow has no active task; pausing/canceling has one",
        "P4: requested statuses are valid statuses; a provider forcing succeeded is outside the properties' quantifiers",
    ]
    trusted = ["z3 5.1", "pyvc interpreter (cross-checked against CPython on every path in this unit)"]

    def splits(self, tier):
        return [(o, r, False) for o in wf_statuses() for r in st.ALL_STATUSES] + \
               [(st.PAUSED, r, True) for r in (st.RUNNING, st.RESUMING)]

    def run_split(self, ctx, split):
        old_c, req_c, relaxed = split
        first = [True]

        def thunk(e):
            old = e.register_input("old", old_c)
            req = e.register_input("req", req_c)
            F = {k: e.register_input(k, S.mk_bool(k)) for k in WFACTS}
            v = {"old": old, "req": req}
            v.update(F)
            e.assume(pwe_links(v, paused_may_be_active=relaxed))
            def raw_staged(eng, obj=None):
                return [{"id": "staged_task", "route": 0, "ready": F["SG"]}] if eng.branch(F["RS"].z) else []

            def get_staged_tasks(eng, filtered=True):
                if not filtered:
                    return raw_staged(eng)
                return [{"id": "staged_task", "route": 0, "ready": True}] if eng.branch(F["SG"].z) else []

            log = []
            cond = AbstractObj("conductor", log_error=Stub("log_error", lambda eng, err, **kw: log.append((err, kw))))
            ws = AbstractObj("workflow_state", status=old, has_active_tasks=F["A"],
                             has_staged_tasks=F["SG"], has_paused_tasks=F["PD"],
                             staged=property(raw_staged), conductor=cond,
                             get_unreachable_barriers=Stub("get_unreachable_barriers", lambda eng: (
                                 [{"id": "join_task", "route": 0}] if eng.branch(F["UB"].z) else [])),
                             get_staged_tasks=Stub("get_staged_tasks", get_staged_tasks))
            event = e.call(events.WorkflowExecutionEvent, [req], {})
            raised = None
            try:
                e.call(machines.WorkflowStateMachine.process_workflow_event, [ws, event], {})
            except Raised as r:
                raised = r
            v["new"] = ws._attrs["status"]
            v["raised"] = raised is not None
            v["n_logged"] = len(log)
            if first[0]:
                ctx.canary()
                first[0] = False
            for name, (props, fn, text) in PWE_OBLIGATIONS.items():
                if relaxed and name not in ("C02.pwe.succeeded_justified", "C03.pwe.resume_completed",
                                            "C02.pwe.no_internal_error"):
                    continue
                ctx.oblige(name, fn(v), v, info={"old": old_c, "req": req_c, "paused_may_be_active": relaxed})
            ctx.crosscheck({"new": v["new"], "raised": raised.cls.__name__ if raised else None, "n_logged": len(log)},
                           rate=1.0 if ctx.tier == "thorough" else 0.5)

        ctx.eng.explore(thunk)

    def native(self, inputs):
        class WS(object):
            pass
        ws = WS()
        ws.status = inputs["old"]
        ws.has_active_tasks = inputs["A"]
        ws.has_staged_tasks = inputs["SG"]
        ws.has_paused_tasks = inputs["PD"]
        ws.staged = [{"id": "staged_task", "route": 0, "ready": inputs["SG"]}] if inputs["RS"] else []
        ws.get_staged_tasks = lambda filtered=True: (
            ws.staged if not filtered else ([{"id": "staged_task", "route": 0, "ready": True}] if inputs["SG"] else []))
        logged = []
        ws.get_unreachable_barriers = lambda: [{"id": "join_task", "route": 0}] if inputs["UB"] else []
        ws.conductor = WS()
        ws.conductor.log_error = lambda e, **kw: logged.append(type(e).__name__)
        raised = None
        try:
            machines.WorkflowStateMachine.process_workflow_event(
                ws, events.WorkflowExecutionEvent(inputs["req"]))
        except Exception as e:
            raised = type(e).__name__
        return {"new": ws.status, "raised": raised, "n_logged": len(logged)}

    def clause(self, name):
        return PWE_OBLIGATIONS[name][1]


# ================================================================================================
# status vocabulary: the code's lists agree with the specification's
# ================================================================================================
class StatusLists(Unit):
    name = "M.status_lists"
    functions = ["orquesta.statuses (module constants)", "orquesta.statuses.is_valid"]
    obligations = {
        "C02.statuses.lists": {"props": ["C02", "C01", "C03", "C04", "C09", "C10", "C12", "C13", "C17", "C18"], "text":
            "every status list of orquesta.statuses contains exactly the statuses the lifecycle documents for it (as a set) and every status constant has its documented value"},
        "C02.statuses.tables_closed": {"props": ["C02", "C15"], "text":
            "every status produced by a cell of either table is a row of that table; every event name in a row is a declared event"},
    }
    assumptions = ["the specification's status vocabulary is contracts/specconst.py"]
    trusted = ["CPython (concrete evaluation of module constants)"]

    def run_split(self, ctx, split):
        from orquesta import statuses as real

        def thunk(e):
            for name in st.LISTS:
                got = getattr(real, name, None)
                ok = isinstance(got, list) and set(got) == set(getattr(st, name)) and len(got) == len(set(got))
                ctx.oblige("C02.statuses.lists", ok, None, {"list": name})
            for name in ["REQUESTED", "SCHEDULED", "DELAYED", "RUNNING", "PENDING", "PAUSING", "PAUSED",
                         "RESUMING", "SUCCEEDED", "FAILED", "EXPIRED", "ABANDONED", "RETRYING", "CANCELING",
                         "CANCELED", "UNSET"]:
                ctx.oblige("C02.statuses.lists", getattr(real, name, None) == getattr(st, name), None,
                           {"constant": name})
            for tname, table, evs in [
                    ("workflow", machines.WORKFLOW_STATE_MACHINE_DATA,
                     events.WORKFLOW_EXECUTION_EVENTS + events.TASK_EXECUTION_EVENTS),
                    ("task", machines.TASK_STATE_MACHINE_DATA,
                     events.ACTION_EXECUTION_EVENTS + events.ENGINE_OPERATION_EVENTS + events.WORKFLOW_EXECUTION_EVENTS)]:
                for row, cells in table.items():
                    ok = row in st.ALL_STATUSES and all(v in table for v in cells.values()) \
                        and all(k in evs for k in cells)
                    ctx.oblige("C02.statuses.tables_closed", ok, None, {"table": tname, "row": row})
            ctx.canary()

        ctx.eng.explore(thunk)
