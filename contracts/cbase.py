"""Shared scaffolding for the conductor-layer units: a *real* WorkflowConductor / WorkflowState
object graph (created without running __init__) whose leaves are symbolic, plus contract stubs for
the callees a unit abstracts."""
import z3

from orquesta import conducting, constants, events, exceptions as exc, machines
from contracts import specconst as st
from orquesta.utils import jsonify as json_util

from pyvc import seqlib, sym as S
from pyvc.engine import AbstractObj, Raised, Stub
from pyvc.sym import SBool, SConst, SInt, SList, OptField, INTERN


def deepcopy_model(eng, value):
    """Assumed contract of orquesta.utils.jsonify.deepcopy: a fresh structural copy (tuples become
    lists, as in a JSON round trip)."""
    if isinstance(value, SList):
        return SList(value.length, value.get, value.name + "_copy", value.tainted)
    if isinstance(value, S.Sym):
        return value
    if isinstance(value, OptField):
        return OptField(value.present, deepcopy_model(eng, value.value))
    if isinstance(value, dict):
        return {k: deepcopy_model(eng, v) for k, v in value.items()}
    if isinstance(value, (list, tuple)):
        return [deepcopy_model(eng, v) for v in value]
    if isinstance(value, AbstractObj):
        return value
    return json_util.deepcopy(value)


def new_conductor(status, staged=None, sequence=None, tasks=None, contexts=None, routes=None,
                  graph=None, spec=None, errors=None, outputs=None):
    """A real WorkflowConductor + WorkflowState pair built without running __init__."""
    c = object.__new__(conducting.WorkflowConductor)
    ws = object.__new__(conducting.WorkflowState)
    ws.__dict__.update(dict(conductor=c, contexts=contexts if contexts is not None else [{}],
                            routes=routes if routes is not None else [[]],
                            sequence=sequence if sequence is not None else [],
                            staged=staged if staged is not None else [], status=status,
                            tasks=tasks if tasks is not None else {}, reruns=[]))
    c.__dict__.update(dict(spec=spec, catalog="native", spec_module=None, composer=None,
                           _errors=errors if errors is not None else [], _graph=graph, _inputs={},
                           _log=[], _outputs=outputs, _parent_ctx={}, _workflow_state=ws))
    return c, ws


class CallLog(object):
    """Records calls to contract stubs (path-local ghost trace)."""

    def __init__(self):
        self.calls = []

    def add(self, name, *args, **kw):
        self.calls.append((name, args, kw))

    def named(self, name):
        return [c for c in self.calls if c[0] == name]


def opt(e, name, value):
    """Optional dict field with symbolic presence."""
    return OptField(z3.Bool(S.fresh_name(name + "_present")), value)


TASK_IDS = ("t1", "t2", "t3")


def staged_entry(e, k, ids=TASK_IDS, with_items=False, max_route=1):
    """Ground staged entry with symbolic leaves (shape of WorkflowState.add_staged_task)."""
    tid = S.mk_const("id%d" % k, ids)
    e.assume(tid.dom_constraint())
    route = S.mk_int("route%d" % k)
    e.assume(z3.And(route.z >= 0, route.z <= max_route))
    ent = {
        "id": tid, "route": route, "ctxs": {"in": [0]}, "prev": {},
        "ready": S.mk_bool("ready%d" % k),
        "completed": opt(e, "completed%d" % k, S.mk_bool("completedv%d" % k)),
        "run_on_fail": opt(e, "rof%d" % k, S.mk_bool("rofv%d" % k)),
    }
    return ent


def snapshot(v):
    """Structural snapshot (shares symbolic leaves) for two-state frame obligations."""
    if isinstance(v, dict):
        return {k: snapshot(x) for k, x in v.items()}
    if isinstance(v, list):
        return [snapshot(x) for x in v]
    if isinstance(v, OptField):
        return OptField(v.present, snapshot(v.value))
    return v


def same_structure(eng, a, b):
    """z3 Bool / python bool: a and b are structurally equal (OptField aware)."""
    if isinstance(a, OptField) or isinstance(b, OptField):
        pa = a.present if isinstance(a, OptField) else True
        pb = b.present if isinstance(b, OptField) else True
        va = a.value if isinstance(a, OptField) else a
        vb = b.value if isinstance(b, OptField) else b
        pz = lambda q: z3.BoolVal(q) if isinstance(q, bool) else q
        inner = same_structure(eng, va, vb)
        inner = z3.BoolVal(inner) if isinstance(inner, bool) else inner
        return z3.And(pz(pa) == pz(pb), z3.Implies(pz(pa), inner))
    if isinstance(a, dict) and isinstance(b, dict):
        if set(a) != set(b):
            ks = set(a) | set(b)
            parts = []
            for k in ks:
                if k in a and k in b:
                    parts.append(same_structure(eng, a[k], b[k]))
                else:
                    x = a.get(k, b.get(k))
                    if isinstance(x, OptField):
                        pz = z3.BoolVal(x.present) if isinstance(x.present, bool) else x.present
                        parts.append(z3.Not(pz))
                    else:
                        return False
            return _and(parts)
        return _and([same_structure(eng, a[k], b[k]) for k in a])
    if isinstance(a, list) and isinstance(b, list):
        if len(a) != len(b):
            return False
        return _and([same_structure(eng, x, y) for x, y in zip(a, b)])
    r = eng.sym_eq(a, b)
    return r


def _and(parts):
    zs = []
    for p in parts:
        if p is False:
            return False
        if p is True:
            continue
        zs.append(p)
    if not zs:
        return True
    return z3.And(zs)
