"""Layer C: WorkflowConductor._evaluate_task_actions — the with-items concurrency window, proved for
item lists of unbounded symbolic length (no unrolling), plus _evaluate_task_retry."""
import z3

from orquesta import conducting
from contracts import specconst as st
from orquesta.expressions import base as expr_base

from pyvc import seqlib, sym as S
from pyvc.engine import AbstractObj, Raised, Stub
from pyvc.framework import Unit
from pyvc.spec import AND, OR, NOT, IMPLIES, IFF, EQ, NE, IN, NOTIN
from pyvc.sym import SConst, SInt, SList, OptField, INTERN

from . import cbase
from .task_machine import fresh_items


def fresh_actions(e, n):
    """n rendered action specs; action i carries item_id == i (C12.render.item_ids)."""
    payload = z3.Function(S.fresh_name("act_payload"), z3.IntSort(), S.Val)
    return SList(n, lambda j: {"action": S.SVal(payload(seqlib.zidx(j))), "item_id": SInt(seqlib.zidx(j))}, "actions")


class EvaluateTaskActions(Unit):
    name = "C._evaluate_task_actions"
    functions = ["orquesta.conducting.WorkflowConductor._evaluate_task_actions"]
    obligations = {
        "C12.eta.window": {"props": ["C12"], "text":
            "offered = min(max(k' - #active, 0), #unset) with k' = k if k > 0 else 1; all unset items when concurrency is absent; hence #active + offered <= k' whenever #active <= k'"},
        "C12.eta.order_once": {"props": ["C12"], "text":
            "every offered action belongs to an item that is still unset (never offered while running or finished), in strictly increasing item order"},
        "C12.eta.init_items": {"props": ["C12", "C19"], "text":
            "items are initialised to n x unset exactly when absent or empty; otherwise the staged entry is not modified"},
        "C12.eta.not_items": {"props": ["C12", "C19"], "text":
            "a task without items is returned unchanged and nothing is modified"},
        "C03.eta.progress": {"props": ["C03", "C12"], "text":
            "availability > 0 and some item unset => at least one action offered"},
        "C15.eta.no_internal_error": {"props": ["C15"], "text":
            "no exception for a staged with-items task whose items list matches the rendered actions"},
    }
    assumptions = [
        "item and action lists of arbitrary length n >= 0 (universally quantified, no bound)",
        "requires: a with-items task has a staged entry; items present and non-empty => len(items) == items_count == len(actions) (INV-ITEMS); action i carries item_id i (TaskSpec.render contract)",
        "sequence axioms (zip, filter, slice, unzip, replicate) and the cardinality lemmas of DESIGN Appendix A (library lemmas, cross-checked against CPython by ./check selftest)",
        "workflow_state.get_staged_task returns the staged entry of (task, route) (layer S)",
    ]
    trusted = ["z3 5.1 (quantified VCs)", "pyvc sequence library"]
    timeout_ms = 8000

    def splits(self, tier):
        top = 4 if tier == "quick" else 6
        return [("noitems", None), ("items", "absent"), ("items", "empty"), ("items", "present")] + \
               [("ground", g) for g in range(1, top + 1)]

    def run_split(self, ctx, split):
        kind, shape = split
        if kind == "ground":
            return self.run_ground(ctx, shape)
        first = [True]

        def thunk(e):
            e.path.notes["card_lemmas"] = True
            e.register_input("kind", kind)
            e.register_input("shape", shape)
            n = z3.Int(S.fresh_name("n"))
            e.assume(n >= 0)
            actions = fresh_actions(e, n)
            items0 = None
            staged = {"id": "t1", "route": 0, "ready": True}
            if shape == "present":
                items0, arr, m = fresh_items(e)
                e.assume(z3.And(m == n, m > 0))
                staged["items"] = SList(items0.length, items0.get, "items")
                e.register_input("items", items0)
            elif shape == "empty":
                staged["items"] = []
            conc_none = None
            task = {"id": "t1", "route": 0, "ctx": {}, "actions": actions, "items_count": SInt(n),
                    "spec": AbstractObj("task_spec", has_items=Stub("has_items", lambda en: kind == "items"))}
            k = S.mk_int("concurrency")
            e.register_input("n", SInt(n))
            conc_is_none = e.register_input("conc_is_none", S.mk_bool("conc_is_none"))
            e.register_input("concurrency", k)
            if kind == "items":
                if e.branch(conc_is_none.z):
                    task["concurrency"] = None
                    conc_none = True
                else:
                    task["concurrency"] = k
                    conc_none = False
            calls = []
            c, ws = cbase.new_conductor(st.RUNNING, staged=[staged])

            def get_staged_task(eng, self_, tid, route):
                calls.append((tid, route))
                return staged

            e.overrides[conducting.WorkflowState.get_staged_task] = get_staged_task
            raised = None
            res = None
            try:
                res = e.call(conducting.WorkflowConductor._evaluate_task_actions, [c, task], {})
            except Raised as r:
                raised = r
            if first[0]:
                ctx.canary()
                first[0] = False
            info = {"kind": kind, "items": shape}
            ctx.oblige("C15.eta.no_internal_error", raised is None, None, info)
            if raised is not None:
                return
            if kind == "noitems":
                ctx.oblige("C12.eta.not_items", res is task and task["actions"] is actions
                           and "items" not in staged and not calls, None, info)
                return
            out = res["actions"]
            empty_out = isinstance(out, list) and not out
            out = seqlib.as_slist(e, out) if not isinstance(out, SList) else out
            # spec view of the item statuses in the pre-state (unset everywhere when absent/empty)
            if shape == "present":
                pre = seqlib.slist_map(e, items0, lambda it: it["status"], "pre_status")
            else:
                pre = SList(n, lambda j: SConst(z3.IntVal(INTERN.id_of(st.UNSET)), st.ALL_STATUSES), "pre_status")
            act = seqlib.spec_count(e, pre, lambda s: e.contains(s, st.ACTIVE_STATUSES), "spec_active")
            un = seqlib.spec_count(e, pre, lambda s: e.wrap_bool(e.zbool_of(e.sym_eq(s, st.UNSET))), "spec_unset")
            L = out.length
            if conc_none:
                ctx.oblige("C12.eta.window", L == un, None, info)
                ctx.oblige("C03.eta.progress", z3.Implies(un > 0, L > 0), None, info)
            else:
                kk = z3.If(k.z > 0, k.z, 1)
                avail = kk - act
                want = z3.If(avail > 0, z3.If(avail < un, avail, un), 0)
                ctx.oblige("C12.eta.window", z3.And(L == want, z3.Implies(act <= kk, act + L <= kk)), None, info)
                ctx.oblige("C03.eta.progress", z3.Implies(z3.And(avail > 0, un > 0), L > 0), None, info)
            # order / once
            zc = lambda v: v.z if isinstance(v, SConst) else z3.IntVal(INTERN.id_of(v))
            if empty_out:
                ctx.oblige("C12.eta.order_once", True, None, info)
            j = z3.Int(S.fresh_name("oj"))
            j2 = z3.Int(S.fresh_name("oj2"))
            idx = lambda q: out.get(q)["item_id"].z if not empty_out else q
            in_rng = z3.ForAll([j], z3.Implies(z3.And(0 <= j, j < L),
                                               z3.And(0 <= idx(j), idx(j) < n,
                                                      pre.get(idx(j)).z == INTERN.id_of(st.UNSET))))
            incr = z3.ForAll([j, j2], z3.Implies(z3.And(0 <= j, j < j2, j2 < L), idx(j) < idx(j2)))
            if not empty_out:
                ctx.oblige("C12.eta.order_once", z3.And(in_rng, incr), None, info)
            # items initialisation / frame
            items_after = staged.get("items")
            if shape == "present":
                ok = isinstance(items_after, SList) and items_after.length.eq(items0.length)
                if ok:
                    q = z3.Int(S.fresh_name("fq"))
                    same = z3.ForAll([q], z3.Implies(z3.And(0 <= q, q < n),
                                                     zc(items_after.get(q)["status"]) == zc(items0.get(q)["status"])))
                    ctx.oblige("C12.eta.init_items", same, None, info)
                else:
                    ctx.oblige("C12.eta.init_items", False, None, info)
            else:
                if isinstance(items_after, SList):
                    q = z3.Int(S.fresh_name("fq"))
                    allunset = z3.ForAll([q], z3.Implies(z3.And(0 <= q, q < items_after.length),
                                                         zc(items_after.get(q)["status"]) == INTERN.id_of(st.UNSET)))
                    ctx.oblige("C12.eta.init_items", z3.And(items_after.length == n, allunset), None, info)
                else:
                    ctx.oblige("C12.eta.init_items", False, None, info)

        ctx.eng.explore(thunk)


    # ---------------------------------------------------------------- ground companion
    def run_ground(self, ctx, n):
        """Same obligations on concrete-length lists (quantifier-free): produces counterexamples."""
        ctx.bounded_mode = True

        def thunk(e):
            e.register_input("n", n)
            sts = [e.register_input("st%d" % i, S.mk_const("st%d" % i, st.ALL_STATUSES)) for i in range(n)]
            for x in sts:
                e.assume(x.dom_constraint())
            k = e.register_input("concurrency", S.mk_int("concurrency"))
            conc_is_none = e.register_input("conc_is_none", S.mk_bool("conc_is_none"))
            items = [{"status": x} for x in sts]
            actions = [{"action": "a%d" % i, "item_id": i} for i in range(n)]
            staged = {"id": "t1", "route": 0, "ready": True, "items": items}
            task = {"id": "t1", "route": 0, "ctx": {}, "actions": list(actions), "items_count": n,
                    "spec": AbstractObj("task_spec", has_items=Stub("has_items", lambda en: True))}
            conc_none = e.branch(conc_is_none.z)
            task["concurrency"] = None if conc_none else k
            c, ws = cbase.new_conductor(st.RUNNING, staged=[staged])
            e.overrides[conducting.WorkflowState.get_staged_task] = lambda eng, s_, t, r: staged
            raised = None
            try:
                res = e.call(conducting.WorkflowConductor._evaluate_task_actions, [c, task], {})
            except Raised as r:
                raised = r
            info = {"ground_n": n}
            ctx.oblige("C15.eta.no_internal_error", raised is None, None, info)
            if raised is not None:
                return
            out = res["actions"]
            if isinstance(out, SList):
                raise S.Unsupported("ground companion produced a symbolic list")
            L = len(out)
            isact = [z3.Or([x.z == INTERN.id_of(a) for a in st.ACTIVE_STATUSES]) for x in sts]
            isun = [x.z == INTERN.id_of(st.UNSET) for x in sts]
            act = z3.Sum([z3.If(b, 1, 0) for b in isact]) if n else z3.IntVal(0)
            un = z3.Sum([z3.If(b, 1, 0) for b in isun]) if n else z3.IntVal(0)
            if conc_none:
                ctx.oblige("C12.eta.window", un == L, None, info)
                ctx.oblige("C03.eta.progress", z3.Implies(un > 0, z3.BoolVal(L > 0)), None, info)
            else:
                kk = z3.If(k.z > 0, k.z, 1)
                avail = kk - act
                want = z3.If(avail > 0, z3.If(avail < un, avail, un), 0)
                ctx.oblige("C12.eta.window", z3.And(want == L, z3.Implies(act <= kk, act + L <= kk)), None, info)
                ctx.oblige("C03.eta.progress", z3.Implies(z3.And(avail > 0, un > 0), z3.BoolVal(L > 0)), None, info)
            ids = [a["item_id"] for a in out]
            ok = all(isinstance(i, int) and 0 <= i < n for i in ids) and all(a < b for a, b in zip(ids, ids[1:]))
            ctx.oblige("C12.eta.order_once", z3.And(z3.BoolVal(ok), *[isun[i] for i in ids if isinstance(i, int) and 0 <= i < n]), None, info)
            same = staged.get("items") is items and len(items) == n and all(items[i]["status"] is sts[i] for i in range(n))
            ctx.oblige("C12.eta.init_items", same, None, info)
            ctx.crosscheck({"offered": [a["item_id"] for a in out]}, rate=0.3)

        ctx.eng.explore(thunk)
        ctx.bounded.append({"unit": self.name, "bound": "ground companion n=%d items" % n})

    def native(self, inputs):
        """Replay on the real code: a real conductor whose staged entry carries the model's items."""
        n = inputs.get("n")
        if "st0" in inputs or n == 0 and "items" not in inputs:
            sts = [inputs["st%d" % i] for i in range(n)]
        elif "items" in inputs:
            sts = [x["status"] for x in inputs["items"]]
            if len(sts) != n:
                return None
        else:
            return None
        if inputs.get("kind") == "noitems":
            return None
        items = [{"status": s} for s in sts]
        actions = [{"action": "a%d" % i, "item_id": i} for i in range(n)]

        class Spec(object):
            def has_items(self):
                return True
        task = {"id": "t1", "route": 0, "ctx": {}, "actions": actions, "items_count": n, "spec": Spec(),
                "concurrency": None if inputs["conc_is_none"] else inputs["concurrency"]}
        c, ws = cbase.new_conductor(st.RUNNING, staged=[{"id": "t1", "route": 0, "ready": True, "items": items}])
        raised = None
        try:
            res = c._evaluate_task_actions(task)
        except Exception as ex:
            return {"raised": type(ex).__name__}
        offered = [a["item_id"] for a in res["actions"]]
        act = sum(1 for s in sts if s in st.ACTIVE_STATUSES)
        un = sum(1 for s in sts if s == st.UNSET)
        return {"offered": offered, "n_offered": len(offered), "active": act, "unset": un, "statuses": sts}

    def clause(self, name):
        def window(v):
            if v.get("raised"):
                return False
            L, act, un = v["n_offered"], v["active"], v["unset"]
            if v["conc_is_none"]:
                return L == un
            kk = v["concurrency"] if v["concurrency"] > 0 else 1
            return L == min(max(kk - act, 0), un) and (act > kk or act + L <= kk)

        def order(v):
            ids = v["offered"]
            return all(v["statuses"][i] == st.UNSET for i in ids) and all(a < b for a, b in zip(ids, ids[1:]))

        def progress(v):
            if v["conc_is_none"]:
                return v["unset"] == 0 or v["n_offered"] > 0
            kk = v["concurrency"] if v["concurrency"] > 0 else 1
            return not (kk - v["active"] > 0 and v["unset"] > 0) or v["n_offered"] > 0
        return {"C12.eta.window": window, "C12.eta.order_once": order, "C03.eta.progress": progress}.get(name)


# ================================================================================================
# _evaluate_task_retry
# ================================================================================================
class EvaluateTaskRetry(Unit):
    name = "C._evaluate_task_retry"
    functions = ["orquesta.conducting.WorkflowConductor._evaluate_task_retry"]
    obligations = {
        "C13.etr.bound": {"props": ["C13"], "text":
            "a retry is granted only while tally < count (so at most count retries, count+1 executions, whatever the tally)"},
        "C13.etr.default_condition": {"props": ["C13"], "text":
            "with no `when`, retry iff the execution abended (and the bound allows); with `when`, iff it evaluates truthy"},
        "C13.etr.no_policy": {"props": ["C13"], "text": "no retry entry in the record => never retried"},
        "C13.etr.reopenable": {"props": ["C13", "C15"], "text":
            "a retry is granted only from a status the task table can reopen (succeeded / failed), so the retry event always makes progress"},
        "C11.etr.raises_only_from_when": {"props": ["C11", "C13"], "text":
            "_evaluate_task_retry raises only if evaluating the `when` expression raises"},
    }
    assumptions = [
        "expr_base.evaluate: assumed contract 'may raise any Exception, else returns an arbitrary value' (external yaql/jinja)",
        "record.retry.count / tally are ints once set up (C13.setup.ints); all integer values symbolic",
    ]
    trusted = ["z3 5.1", "pyvc interpreter (cross-checked against CPython)"]

    def splits(self, tier):
        return [(s, has, wn) for s in [st.SUCCEEDED, st.FAILED, st.EXPIRED, st.ABANDONED, st.CANCELED, st.RUNNING, st.UNSET]
                for has in (True, False) for wn in (True, False)]

    def run_split(self, ctx, split):
        status_c, has_retry, when_none = split
        first = [True]

        def thunk(e):
            e.register_input("status", status_c)
            e.register_input("has_retry", has_retry)
            e.register_input("when_none", when_none)
            count = e.register_input("count", S.mk_int("count"))
            tally = e.register_input("tally", S.mk_int("tally"))
            ev_truthy = e.register_input("when_truthy", S.mk_bool("when_truthy"))
            ev_raises = e.register_input("when_raises", S.mk_bool("when_raises"))
            entry = {"id": "t1", "route": 0}
            if status_c != st.UNSET:
                entry["status"] = status_c
            if has_retry:
                entry["retry"] = {"when": None if when_none else "<% expr %>", "count": count, "tally": tally,
                                  "delay": None}
            calls = []

            def evaluate(eng, statement, data=None):
                calls.append(statement)
                if eng.branch(ev_raises.z):
                    raise Raised(Exception, ("evaluation failed",))
                if statement is None:
                    return None   # evaluate(None) is the identity on non-strings
                return ev_truthy

            e.overrides[expr_base.evaluate] = evaluate
            c, ws = cbase.new_conductor(st.RUNNING)
            raised = None
            res = None
            try:
                res = e.call(conducting.WorkflowConductor._evaluate_task_retry, [c, entry, {}], {})
            except Raised as r:
                raised = r
            if first[0]:
                ctx.canary()
                first[0] = False
            info = {"status": status_c, "has_retry": has_retry, "when_none": when_none}
            ctx.oblige("C11.etr.raises_only_from_when",
                       z3.Implies(z3.BoolVal(raised is not None), z3.And(ev_raises.z, z3.BoolVal(bool(calls)))), None, info)
            if raised is not None:
                return
            rz = e.zbool_of(res) if not isinstance(res, bool) else z3.BoolVal(res)
            if not has_retry:
                ctx.oblige("C13.etr.no_policy", z3.Not(rz), None, info)
                return
            ctx.oblige("C13.etr.no_policy", True, None, info)
            ctx.oblige("C13.etr.bound", z3.Implies(rz, tally.z < count.z), None, info)
            reopenable = status_c in [st.SUCCEEDED, st.FAILED]
            ctx.oblige("C13.etr.reopenable", z3.Implies(rz, z3.BoolVal(reopenable)), None, info)
            abended = status_c in [st.FAILED, st.EXPIRED, st.ABANDONED]
            if when_none:
                want = z3.And(tally.z < count.z, z3.BoolVal(abended and reopenable))
            else:
                want = z3.And(tally.z < count.z, ev_truthy.z, z3.BoolVal(reopenable))
            ctx.oblige("C13.etr.default_condition", rz == want, None, info)
            ctx.crosscheck({"result": res})

        ctx.eng.explore(thunk)

    def native(self, inputs):
        entry = {"id": "t1", "route": 0}
        if inputs["status"] != st.UNSET:
            entry["status"] = inputs["status"]
        if inputs["has_retry"]:
            entry["retry"] = {"when": None if inputs["when_none"] else "<% expr %>", "count": inputs["count"],
                              "tally": inputs["tally"], "delay": None}
        if inputs["when_raises"]:
            return None
        orig = expr_base.evaluate
        c, ws = cbase.new_conductor(st.RUNNING)
        try:
            conducting.expr_base.evaluate = lambda s, d=None: (None if s is None else inputs["when_truthy"])
            try:
                r = c._evaluate_task_retry(entry, {})
            except Exception as e:
                return {"result": "raised %s" % type(e).__name__}
        finally:
            conducting.expr_base.evaluate = orig
        return {"result": r}
