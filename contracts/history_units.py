"""History-level witnesses of clauses that no per-call contract decides (relations over arrival
histories).  Each runs one concrete history against the public API natively: a BOUNDED scenario, present
so that a recorded finding is re-established on every run (KNOWN-FINDING) and its control cases hold."""
from orquesta import conducting, events
from orquesta.specs import native as native_specs
from contracts import specconst as st

from pyvc.framework import Unit

JOIN_DEF = """
version: 1.0
tasks:
  init:
    action: core.noop
    next:
      - publish: x=1
        do: a, b
  a:
    action: core.noop
    next:
      - publish: x=%s
        do: j
  b:
    action: core.noop
    next:
      - %sdo: j
  j:
    join: all
    action: core.echo message=<%% ctx(x) %%>
"""


def run_join(a_pub, b_pub, order):
    spec = native_specs.WorkflowSpec(JOIN_DEF % (a_pub, ("publish: x=%s\n        " % b_pub) if b_pub is not None else ""))
    assert not spec.inspect()
    c = conducting.WorkflowConductor(spec)
    c.request_workflow_status(st.RUNNING)
    ev = lambda t, s: c.update_task_state(t, 0, events.ActionExecutionEvent(s))
    c.get_next_tasks(); ev("init", st.RUNNING); ev("init", st.SUCCEEDED)
    c.get_next_tasks(); ev("a", st.RUNNING); ev("b", st.RUNNING)
    for t in order:
        ev(t, st.SUCCEEDED)
    return [t for t in c.get_next_tasks() if t["id"] == "j"][0]["ctx"]["x"]


UPSTREAM_DEF = """
version: 1.0
vars:
  - x: 0
tasks:
  init:
    action: core.noop
    next:
      - do: a1, b1
  a1:
    action: core.noop
    next:
      - publish: x=1
        do: a2
  a2:
    action: core.noop
    next:
      - do: j
  b1:
    action: core.noop
    next:
      - publish: x=2
        do: b2
  b2:
    action: core.noop
    next:
      - do: j
  j:
    join: all
    action: core.echo message=<% ctx(x) %>
"""


def run_upstream(publish_order, arrival_order):
    """Both branches publish x upstream of the join (on a1->a2, b1->b2): the order in which the values are
    published (completion order of a1, b1) is independent of the order in which a2, b2 arrive at the join."""
    spec = native_specs.WorkflowSpec(UPSTREAM_DEF)
    assert not spec.inspect()
    c = conducting.WorkflowConductor(spec)
    c.request_workflow_status(st.RUNNING)
    ev = lambda t, s: c.update_task_state(t, 0, events.ActionExecutionEvent(s))
    c.get_next_tasks(); ev("init", st.RUNNING); ev("init", st.SUCCEEDED)
    c.get_next_tasks(); ev("a1", st.RUNNING); ev("b1", st.RUNNING)
    for t in publish_order:
        ev(t, st.SUCCEEDED)
    c.get_next_tasks(); ev("a2", st.RUNNING); ev("b2", st.RUNNING)
    for t in arrival_order:
        ev(t, st.SUCCEEDED)
    return [t for t in c.get_next_tasks() if t["id"] == "j"][0]["ctx"]["x"]


class JoinContextHistories(Unit):
    bounded = True
    name = "H.join_context_histories"
    functions = ["orquesta.conducting.WorkflowConductor.update_task_state", "orquesta.conducting.WorkflowConductor.get_task_context"]
    obligations = {
        "C06.hist.join_arrival_order": {"props": ["C06"], "text":
            "at a join of two branches that both publish x independently, the later arrival's value is seen; a branch that merely inherited an older x never overrides a newer x published on the other branch"},
    }
    assumptions = ["BOUNDED: eight concrete histories on two definitions - publishes on the transitions into the join, and publishes upstream of it with every combination of publish order and arrival order (native run through the public API)"]
    trusted = ["CPython", "yaql"]

    def run_split(self, ctx, split):
        def thunk(e):
            for a_pub, b_pub, order, want, hist in (
                    (2, 3, ("a", "b"), 3, "both publish, b last"), (2, 3, ("b", "a"), 2, "both publish, a last"),
                    (2, None, ("b", "a"), 2, "b inherited, a last"), (2, None, ("a", "b"), 2, "F9")):
                got = run_join(a_pub, b_pub, order)
                ctx.oblige("C06.hist.join_arrival_order", got == want, {"history": hist},
                           {"history": hist, "a_publishes": a_pub, "b_publishes": b_pub, "order": order, "join_sees_x": got, "expected": want})
            for pub in (("a1", "b1"), ("b1", "a1")):
                for arr in (("a2", "b2"), ("b2", "a2")):
                    got = run_upstream(pub, arr)
                    want = 1 if arr[-1] == "a2" else 2
                    hist = "upstream publishes in order %s, arrivals in order %s" % (pub, arr)
                    ctx.oblige("C06.hist.join_arrival_order", got == want, {"history": hist},
                               {"history": hist, "join_sees_x": got, "expected": want})
            ctx.canary()
        ctx.eng.explore(thunk)
        ctx.bounded.append({"unit": self.name, "bound": "8 histories"})


BARRIER_DEFS = {
    "all": """
version: 1.0
tasks:
  init:
    action: core.noop
    next:
      - do: a, b, c
  a:
    action: core.noop
    next:
      - do: j
  b:
    action: core.noop
    next:
      - do: j
  c:
    action: core.noop
    next:
      - do: j
  j:
    join: all
    action: core.noop
""",
    "cycle": """
version: 1.0
vars:
  - i: 0
tasks:
  init:
    action: core.noop
    next:
      - do: start
  start:
    action: core.noop
    next:
      - do: a, b
  a:
    action: core.noop
    next:
      - do: j
  b:
    action: core.noop
    next:
      - do: j
  j:
    join: all
    action: core.noop
    next:
      - when: <% ctx().i < 1 %>
        publish: i=<% ctx().i + 1 %>
        do: start
""",
}


class _Run(object):
    """drives a definition natively; records what is offered and started"""

    def __init__(self, defn):
        spec = native_specs.WorkflowSpec(defn)
        assert not spec.inspect()
        self.c = conducting.WorkflowConductor(spec)
        self.c.request_workflow_status(st.RUNNING)
        self.started = []

    def start(self, only=None):
        for t in self.c.get_next_tasks():
            if only is not None and t["id"] not in only:
                continue
            self.started.append(t["id"])
            self.c.update_task_state(t["id"], t["route"], events.ActionExecutionEvent(st.RUNNING))

    def done(self, tid, status=st.SUCCEEDED):
        self.c.update_task_state(tid, 0, events.ActionExecutionEvent(status))

    def offered(self):
        return [t["id"] for t in self.c.get_next_tasks()]


def barrier_histories():
    """(name, observed, expected, detail) for each concrete history"""
    import itertools
    out = []
    # join: all over three branches, every completion order, every position of the slow starter
    for order in itertools.permutations("abc"):
        r = _Run(BARRIER_DEFS["all"])
        r.start(); r.done("init"); r.start()
        early = []
        for k, t in enumerate(order):
            r.done(t)
            if k < 2 and "j" in r.offered():
                early.append(t)
        r.start(); r.done("j")
        out.append(("all/%s" % "".join(order), (early, r.started.count("j"), r.c.get_workflow_status()),
                    ([], 1, st.SUCCEEDED), "join: all over a, b, c; completions in order %s" % (order,)))
    # a join inside a cycle: the second iteration waits for both branches of THAT iteration
    for first, held in (("a", "b"), ("b", "a")):
        r = _Run(BARRIER_DEFS["cycle"])
        r.start(); r.done("init"); r.start(); r.done("start"); r.start()
        r.done("a"); r.done("b"); r.start(); r.done("j")
        r.start(); r.done("start")
        r.start(only=(first,))                 # both branches of iteration 2 are offered; one has started
        r.done(first)
        early = "j" in r.offered()
        out.append(("cycle/%s-first-%s-not-started" % (first, held), early, False,
                    "second iteration of a loop through join j: %s completed while %s, already offered, has not reported yet" % (first, held)))
    # control: both branches of iteration 2 started before either completes
    r = _Run(BARRIER_DEFS["cycle"])
    r.start(); r.done("init"); r.start(); r.done("start"); r.start()
    r.done("a"); r.done("b"); r.start(); r.done("j")
    r.start(); r.done("start"); r.start(); r.done("a")
    early = "j" in r.offered()
    r.done("b"); r.start(); r.done("j")
    out.append(("cycle/both-started", (early, r.started.count("j"), r.c.get_workflow_status()), (False, 2, st.SUCCEEDED),
                "second iteration, both branches running before the first completes"))
    return out


class JoinBarrierHistories(Unit):
    bounded = True
    name = "H.join_barrier_histories"
    functions = ["orquesta.conducting.WorkflowConductor.update_task_state", "orquesta.conducting.WorkflowConductor.get_inbound_criteria_status",
                 "orquesta.conducting.WorkflowConductor.get_next_tasks"]
    obligations = {
        "C07.hist.barrier_waits_for_this_visit": {"props": ["C07"], "text":
            "a join is offered only after all its inbound branches have completed into it in the current visit, whatever the completion order, and runs once per visit: in particular, in the second iteration of a loop a branch's record from the previous iteration does not count towards the barrier"},
    }
    assumptions = ["BOUNDED: nine concrete histories on two definitions (native run through the public API)"]
    trusted = ["CPython", "yaql"]

    def run_split(self, ctx, split):
        def thunk(e):
            for name, got, want, detail in barrier_histories():
                ctx.oblige("C07.hist.barrier_waits_for_this_visit", got == want, {"history": name},
                           {"history": name, "observed": got, "expected": want, "detail": detail})
            ctx.canary()
        ctx.eng.explore(thunk)
        ctx.bounded.append({"unit": self.name, "bound": "9 histories"})


LATE_DEF = """
version: 1.0
tasks:
  a:
    action: core.noop
    next:
      - do: w, p
  w:
    %s
    action: core.echo message=x
  p:
    action: core.noop
"""
ITEMS = "with:\n      items: <%% list(1, 2, 3) %%>\n      concurrency: %d"


def late_start_histories():
    """a task that was offered before a pause / cancel request reports its start only afterwards:
    (name, observed, expected, detail)"""
    out = []
    for request, rest in ((st.PAUSING, st.PAUSED), (st.CANCELING, st.CANCELED)):
        for shape in ("plain", "items/1", "items/3"):
            for late in (False, True):
                body = "" if shape == "plain" else ITEMS % int(shape.split("/")[1])
                r = _Run(LATE_DEF % body)
                c = r.c
                r.start(); r.done("a")
                offers = {t["id"]: t for t in c.get_next_tasks()}
                n_items = [x.get("item_id") for x in offers["w"]["actions"]]
                c.update_task_state("p", 0, events.ActionExecutionEvent(st.RUNNING))

                def start_w():
                    if shape == "plain":
                        c.update_task_state("w", 0, events.ActionExecutionEvent(st.RUNNING))
                    else:
                        for i in n_items:
                            c.update_task_state("w", 0, events.TaskItemActionExecutionEvent(i, st.RUNNING))
                if not late:
                    start_w()
                c.request_workflow_status(request)
                if late:
                    start_w()
                during = c.get_workflow_status()
                r.done("p")
                mid = c.get_workflow_status()
                if shape == "plain":
                    r.done("w")
                else:
                    for i in n_items:
                        c.update_task_state("w", 0, events.TaskItemActionExecutionEvent(i, st.SUCCEEDED, result="x"))
                end = c.get_workflow_status()
                more = [t["id"] for t in c.get_next_tasks()]
                out.append(("late-start/%s/%s/%s" % (request, shape, "late" if late else "early"), (during, mid, end, more),
                            (request, request, rest, []),
                            "%s requested %s the offered task w (%s) reported its start; then p and w's in-flight actions report succeeded" % (
                                request, "before" if late else "after", shape)))
    return out


TASK_EVENT_DEF = """
version: 1.0
tasks:
  a:
    with:
      items: <% list(1, 2) %>
      concurrency: 1
    action: core.echo message=x
  b:
    action: core.noop
"""


def task_event_histories():
    """the workflow starts pausing / canceling because a TASK reports pending / canceled (no request),
    while a with-items task is in between items"""
    out = []
    for report, then, rest in ((st.PENDING, st.SUCCEEDED, st.PAUSED), (st.CANCELED, None, st.CANCELED)):
        for b_first in (True, False):
            r = _Run(TASK_EVENT_DEF)
            c = r.c
            for t in c.get_next_tasks():
                if t["id"] == "a":
                    c.update_task_state("a", 0, events.TaskItemActionExecutionEvent(0, st.RUNNING))
                else:
                    c.update_task_state("b", 0, events.ActionExecutionEvent(st.RUNNING))
            c.update_task_state("b", 0, events.ActionExecutionEvent(report))
            during = c.get_workflow_status()
            steps = [("b", then)] if then else []
            steps = steps + [("a", None)] if b_first else [("a", None)] + steps
            for who, status in steps:
                if who == "a":
                    c.update_task_state("a", 0, events.TaskItemActionExecutionEvent(0, st.SUCCEEDED, result="x"))
                else:
                    c.update_task_state("b", 0, events.ActionExecutionEvent(status))
            end = c.get_workflow_status()
            more = [t["id"] for t in c.get_next_tasks()]
            want_during = st.PAUSING if report == st.PENDING else st.CANCELING
            out.append(("task-event/%s/%s" % (report, "b-first" if b_first else "item-first"), (during, end, more), (want_during, rest, []),
                        "b reports %s while item 0 of a (2 items, concurrency 1) runs; then %s" % (report, steps)))
    return out


class LateStartHistories(Unit):
    bounded = True
    name = "H.late_start_histories"
    functions = ["orquesta.conducting.WorkflowConductor.update_task_state", "orquesta.conducting.WorkflowConductor.request_workflow_status",
                 "orquesta.machines.TaskStateMachine.process_event"]
    obligations = {
        "C10.hist.request_reaches_late_starter": {"props": ["C10", "C09", "C03"], "text":
            "a task (plain or with-items, with more items than its concurrency or not) that was offered before a pause / cancel request and reports its start only afterwards does not keep the workflow pausing / canceling for ever: the workflow reports pausing / canceling while an action is in flight and paused / canceled as soon as the last one has reported, and offers nothing more - exactly as when the start had been reported before the request"},
        "C10.hist.task_event_reaches_items": {"props": ["C10", "C09", "C03", "C02"], "text":
            "when the workflow starts pausing / canceling because a task reports pending / canceled (not because of a request), a with-items task that is in between items is told as well: the workflow reports paused / canceled as soon as the last in-flight action has reported and offers nothing more"},
    }
    assumptions = ["BOUNDED: sixteen concrete histories on four definitions (native run through the public API)"]
    trusted = ["CPython", "yaql"]

    def run_split(self, ctx, split):
        def thunk(e):
            for name, got, want, detail in late_start_histories():
                ctx.oblige("C10.hist.request_reaches_late_starter", got == want, {"history": name},
                           {"history": name, "observed": got, "expected": want, "detail": detail})
            for name, got, want, detail in task_event_histories():
                ctx.oblige("C10.hist.task_event_reaches_items", got == want, {"history": name},
                           {"history": name, "observed": got, "expected": want, "detail": detail})
            ctx.canary()
        ctx.eng.explore(thunk)
        ctx.bounded.append({"unit": self.name, "bound": "12 histories"})
