"""History-level witnesses of clauses that no per-call contract decides (relations over arrival
histories).  Each runs one concrete history against the public API natively: a BOUNDED scenario, present
so that a recorded finding is re-established on every run (KNOWN-FINDING) and its control cases hold."""
from orquesta import conducting, events
from orquesta.specs import native as native_specs
from contracts import specconst as st

from pyvc.framework import Unit

JOIN_DEF = """
version: 1.0
tasks:
  init:
    action: core.noop
    next:
      - publish: x=1
        do: a, b
  a:
    action: core.noop
    next:
      - publish: x=%s
        do: j
  b:
    action: core.noop
    next:
      - %sdo: j
  j:
    join: all
    action: core.echo message=<%% ctx(x) %%>
"""


def run_join(a_pub, b_pub, order):
    spec = native_specs.WorkflowSpec(JOIN_DEF % (a_pub, ("publish: x=%s\n        " % b_pub) if b_pub is not None else ""))
    assert not spec.inspect()
    c = conducting.WorkflowConductor(spec)
    c.request_workflow_status(st.RUNNING)
    ev = lambda t, s: c.update_task_state(t, 0, events.ActionExecutionEvent(s))
    c.get_next_tasks(); ev("init", st.RUNNING); ev("init", st.SUCCEEDED)
    c.get_next_tasks(); ev("a", st.RUNNING); ev("b", st.RUNNING)
    for t in order:
        ev(t, st.SUCCEEDED)
    return [t for t in c.get_next_tasks() if t["id"] == "j"][0]["ctx"]["x"]


class JoinContextHistories(Unit):
    bounded = True
    name = "H.join_context_histories"
    functions = ["orquesta.conducting.WorkflowConductor.update_task_state", "orquesta.conducting.WorkflowConductor.get_task_context"]
    obligations = {
        "C06.hist.join_arrival_order": {"props": ["C06"], "text":
            "at a join of two branches that both publish x independently, the later arrival's value is seen; a branch that merely inherited an older x never overrides a newer x published on the other branch"},
    }
    assumptions = ["BOUNDED: four concrete histories on one definition (native run through the public API)"]
    trusted = ["CPython", "yaql"]

    def run_split(self, ctx, split):
        def thunk(e):
            for a_pub, b_pub, order, want, hist in (
                    (2, 3, ("a", "b"), 3, "both publish, b last"), (2, 3, ("b", "a"), 2, "both publish, a last"),
                    (2, None, ("b", "a"), 2, "b inherited, a last"), (2, None, ("a", "b"), 2, "F9")):
                got = run_join(a_pub, b_pub, order)
                ctx.oblige("C06.hist.join_arrival_order", got == want, {"history": hist},
                           {"history": hist, "a_publishes": a_pub, "b_publishes": b_pub, "order": order, "join_sees_x": got, "expected": want})
            ctx.canary()
        ctx.eng.explore(thunk)
        ctx.bounded.append({"unit": self.name, "bound": "4 histories"})
