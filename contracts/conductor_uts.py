"""Layer C: WorkflowConductor.update_task_state on the *local neighbourhood* of the reporting task.

The reporting task `t` has K <= 2 outbound transitions (plain task, join, engine commands, duplicate
target); the graph and the spec are abstract objects with contract stubs; records, staged entries,
statuses, criteria outcomes, publish outcomes, inbound-criteria status and the workflow status are
symbolic.  The real update_task_state (with the real state machines, log_errors,
request_workflow_status, add_task_state, WorkflowState queries ...) is interpreted from source.

BOUNDED in the shape (K <= 2 transitions, <= 2 items, one route); every leaf value is symbolic.
"""
import z3

from orquesta import conducting, constants, events, exceptions as exc, machines
from orquesta.expressions import base as expr_base
from orquesta.utils import jsonify as json_util
from contracts import specconst as st

from pyvc import sym as S
from pyvc.engine import AbstractObj, Raised, Stub, SymExc
from pyvc.framework import Unit
from pyvc.sym import OptField, SConst, SInt, SBool

from . import cbase

T = "t"
CONFIGS = {
    "leaf": [],
    "one": ["n1"],
    "join": ["j1"],
    "fail": ["fail"],
    "noop": ["noop"],
    "one+fail": ["n1", "fail"],
    "one+fail+noop": ["n1", "fail", "noop"],
    "two": ["n1", "n2"],
    "dup": ["n1", "n1"],
}
COMMANDS = ("fail", "noop", "continue", "retry")
ALL_TASKS = (T, "n1", "n2", "j1", "fail", "noop", "continue", "z9")
WF_CASES = [st.RUNNING, st.PAUSING, st.CANCELING, st.FAILED, st.RESUMING]
REC_CASES = [None, st.REQUESTED, st.RUNNING, st.PENDING, st.PAUSING, st.PAUSED, st.CANCELING, st.RETRYING,
             st.SUCCEEDED, st.FAILED, st.CANCELED]
ACTION_EVENTS = [s for s in st.ALL_STATUSES if s not in (st.UNSET, st.RETRYING)]


def tid_of(target, key):
    return constants.TASK_STATE_TRANSITION_FORMAT % (target, str(key))


class UpdateTaskState(Unit):
    bounded = True
    name = "C.update_task_state"
    functions = [
        "orquesta.conducting.WorkflowConductor.update_task_state",
        "orquesta.conducting.WorkflowConductor.add_task_state",
        "orquesta.conducting.WorkflowConductor.get_task_state_entry",
        "orquesta.conducting.WorkflowConductor._get_task_state_idx",
        "orquesta.conducting.WorkflowConductor.make_task_result",
        "orquesta.conducting.WorkflowConductor.log_errors",
        "orquesta.conducting.WorkflowConductor.request_workflow_status",
        "orquesta.conducting.WorkflowConductor._has_next",
        "orquesta.conducting.WorkflowState.get_staged_task",
        "orquesta.conducting.WorkflowState.add_staged_task",
        "orquesta.conducting.WorkflowState.remove_staged_task",
        "orquesta.conducting.WorkflowState.get_tasks_by_status",
        "orquesta.conducting.WorkflowState.get_unreachable_barriers",
        "orquesta.machines.TaskStateMachine.process_event",
        "orquesta.machines.WorkflowStateMachine.process_event",
    ]
    obligations = {
        "C11.uts.contained": {"props": ["C11", "C15"], "text":
            "no exception escapes update_task_state except the three argument-validation errors (TypeError for a non-event, InvalidTask, InvalidTaskStateEntry)"},
        "C11.uts.criteria_error": {"props": ["C11"], "text":
            "a transition condition that fails to evaluate is logged with task id, route and transition id, failed is requested and the transition stages nothing"},
        "C11.uts.publish_error": {"props": ["C11", "C01"], "text":
            "a publish that fails to evaluate is logged with the transition id, failed is requested and the transition stages nothing"},
        "C01.uts.stage_only_if_true": {"props": ["C01", "C18"], "text":
            "a staged entry is created or extended only for a transition whose condition evaluated true on this completion (status completed and changed)"},
        "C01.uts.true_transition_staged": {"props": ["C01", "C03"], "text":
            "every transition whose condition evaluated true (and whose publish succeeded) has a staged entry for its target afterwards, or, for an engine command, an executed record"},
        "C01.uts.consumed_on_start": {"props": ["C01"], "text":
            "a report with a status for a plain task removes its staged entry, so it is offered once (unless it is re-staged as a retry)"},
        "C18.uts.decided_once": {"props": ["C18", "C07", "C01"], "text":
            "outbound decisions (next), published deltas and successor staging are written only when the task status becomes completed in this call (status changed)"},
        "C18.uts.append_only": {"props": ["C18", "C05"], "text":
            "existing records, contexts and routes are never removed, reordered or replaced; records other than the latest of the reporting task keep status, ctxs.in, prev and next"},
        "C18.uts.cycle_appends": {"props": ["C18"], "text":
            "a starting report on a completed record appends a fresh record and leaves the completed one untouched"},
        "C13.uts.no_transition_on_retry": {"props": ["C13"], "text":
            "when the attempt is retried no transition is decided, nothing is staged for successors, the tally grows by exactly one and the task is re-staged ready with the record's own evaluated retry settings (condition, count, delay, tally) - not the raw policy of the graph node"},
        "C13.uts.retry_counted_once": {"props": ["C13", "C01"], "text":
            "only a report that moves the record into retrying counts as a retry: any other report - in particular one that acknowledges (delayed, scheduled ...) or is ignored by a record already waiting to be retried - leaves the tally as it is and stages nothing for the task again"},
        "C13.uts.retry_only_while_active": {"props": ["C13", "C04"], "text":
            "an attempt reporting into a workflow that is no longer active (failed, paused, canceled ...) is never consumed as a retry: the task keeps its completed status and its transitions are evaluated"},
        "C13.uts.retry_only_on_completing_report": {"props": ["C13", "C18"], "text":
            "an attempt is retried only by the report that completes it: a late or duplicate report for a record that was already completed (transitions decided) never reopens it"},
        "C07.uts.join_not_restaged_while_running": {"props": ["C07"], "text":
            "a join whose execution for the satisfied barrier is in flight on this route is not staged ready again by a further arriving branch (it runs once per satisfaction, not once per arrival)"},
        "C07.uts.ready_from_satisfied": {"props": ["C07"], "text":
            "the ready flag of a (re)staged non-command successor equals 'inbound criteria satisfied'"},
        "C06.uts.ctx_inherited": {"props": ["C06", "C13"], "text":
            "the context pointers the completing task had received are handed on: a newly staged successor's pointers start with the task's own (then the new delta), an already staged successor keeps its own and gains those of the task's non-root ones it does not hold yet (none twice); a task re-staged for a retry is staged with exactly its record's pointers and back references (as copies)"},
        "C04.uts.late_item_report_absorbed": {"props": ["C04", "C12", "C18"], "text":
            "a report (running, succeeded, canceled, failed) of an item of a with-items task that is already completed - its staged entry gone, or kept and flagged completed - is absorbed without error: no new record is opened, the finished record keeps its status and decisions, nothing is staged again"},
        "C04.uts.cleanup_marked": {"props": ["C04", "C01"], "text":
            "every ready non-command task staged by a completing task that also takes a fail command is marked run_on_fail - whatever other commands (noop, continue) the task takes before or after the fail - so the documented clean-up tasks are still offered once the workflow has failed"},
        "C04.uts.run_on_fail_marking": {"props": ["C04", "C10"], "text":
            "run_on_fail is set only on ready non-command entries staged beside a fail command whose condition was true"},
        "C18.uts.unrelated_staged_untouched": {"props": ["C18", "C04", "C09"], "text":
            "a staged entry of a task that is neither the reporting task nor one of its transition targets is left exactly as it was (in particular it is never marked run_on_fail)"},
        "C09.uts.leaf_is_terminal": {"props": ["C09", "C06"], "text":
            "a task that completes with no outbound transition taken (none exists, or none evaluated true) is marked terminal by that very report, whatever the workflow status becomes (so a pause before the last report does not lose the terminal context)"},
        "C02.uts.links": {"props": ["C02"], "text":
            "the workflow machine is consulted with an event carrying exactly the status of the reporting task's latest record"},
        "C05.sep.record_creation": {"props": ["C05", "C18", "C07"], "text":
            "the containers stored in a newly created record are not shared with a staged entry that remains staged"},
        "C05.sep.staged_vs_records": {"props": ["C05", "C18"], "text":
            "at exit no staged entry shares its context-pointer list, back-reference dict or retry settings with any execution record"},
        "C06.uts.ctx_indices": {"props": ["C06"], "text":
            "contexts grows by exactly one delta per true transition with a non-empty publish; a new entry gets record.ctxs.in + [delta], an existing one is extended by that list minus the root"},
        "C04.uts.late_report_absorbed": {"props": ["C04"], "text":
            "a report arriving on a terminal workflow raises nothing and leaves the workflow status unchanged"},
        "C12.uts.item_status_recorded": {"props": ["C12"], "text":
            "an item report records exactly that item's status in the staged entry and touches no other item"},
    }
    assumptions = [
        "BOUNDED shape: reporting task with K <= 2 outbound transitions (plain, join, fail/noop command, duplicate target), <= 2 items, a single route; every status, flag, criteria/publish outcome and the inbound-criteria status is symbolic",
        "graph / spec are abstract with contract stubs (get_next_transitions sorted by target, has_barrier, task_has_retry, get_task_retry_spec returns a fresh copy, is_split_task False)",
        "expr_base.evaluate: may raise any Exception, else returns an arbitrary value (external yaql/jinja)",
        "TaskSpec.finalize_context: returns (out_ctx, new_ctx, errors) with errors a list of evaluation exceptions (its own contract: C06.finalize.*)",
        "make_task_context, get_inbound_criteria_status, _evaluate_route: their own contracts are used at the call sites",
        "json_util.deepcopy: fresh structural copy",
    ]
    trusted = ["z3 5.1", "pyvc interpreter"]
    timeout_ms = 10000

    # ------------------------------------------------------------------------------------------
    def splits(self, tier):
        out = []
        for cfg in CONFIGS:
            for rec in REC_CASES:
                for ev in ACTION_EVENTS:
                    if rec is None and ev not in st.STARTING_STATUSES:
                        continue   # P3: the first report of an execution is a starting status
                    out.append(("action", ev, rec, "plain" if (rec is None or ev in st.STARTING_STATUSES) else "maybe", cfg))
        # engine commands are processed from their staged entry
        for cmd in ("fail", "noop", "continue"):
            out.append(("engine", cmd, None, "plain", "leaf"))
        # with-items item reports
        for cfg in ("leaf", "one", "one+fail"):
            for rec in (st.RUNNING, st.PAUSING, st.CANCELING, None):
                for ev in (st.RUNNING, st.SUCCEEDED, st.FAILED, st.CANCELED, st.PAUSED):
                    if rec is None and ev != st.RUNNING:
                        continue
                    out.append(("item", ev, rec, "items", cfg))
        # late item reports: the with-items task is completed; its staged entry is gone, or kept and
        # flagged completed (failed task, kept for a rerun)
        for ev in (st.RUNNING, st.SUCCEEDED, st.CANCELED, st.FAILED):
            out.append(("item", ev, st.CANCELED, "absent", "one+fail"))            # a canceled task is un-staged
            out.append(("item", ev, st.FAILED, "items_completed", "one+fail"))     # a failed one is kept, flagged
        out.append(("action", st.RUNNING, None, "absent", "leaf"))
        full = list(out)
        if True:
            # quick tier: every (record, event) pair for which the task table has a row, on the
            # configuration "one"; the completing pairs from a running/pending/pausing/canceling record
            # additionally on the configurations that exercise fail commands, joins and duplicate
            # targets; representative no-row pairs (late/duplicate/conflicting reports).
            table = machines.TASK_STATE_MACHINE_DATA
            keep = []
            heavy_recs = (st.RUNNING, st.PENDING, st.PAUSING, st.CANCELING)
            for s_ in out:
                kind, ev, rec, stg, cfg = s_
                if kind != "action":
                    if kind == "item" and cfg == "one" and rec not in (st.RUNNING, None):
                        continue
                    keep.append(s_)
                    continue
                row = table.get(rec if rec is not None else st.UNSET, {})
                has_row = ("action_%s" % ev) in row
                completing = has_row and row["action_%s" % ev] in st.COMPLETED_STATUSES
                if cfg == "one" and (has_row or rec == st.RETRYING or (rec in st.COMPLETED_STATUSES and
                                                 ev in st.COMPLETED_STATUSES + [st.RUNNING, st.REQUESTED])):
                    keep.append(s_)
                elif cfg in ("one+fail", "one+fail+noop", "join", "dup") and completing and rec in heavy_recs and \
                        (rec == st.RUNNING or ev in (st.SUCCEEDED, st.FAILED)):
                    keep.append(s_)
                elif cfg in ("leaf", "fail", "noop", "two") and (ev, rec) in ((st.SUCCEEDED, st.RUNNING), (st.FAILED, st.RUNNING)):
                    keep.append(s_)
                elif cfg == "leaf" and stg == "absent":
                    keep.append(s_)
            out = keep
        if tier != "quick":
            # thorough: the quick selection (on which every workflow-status case and the retry variants
            # are then explored) plus the full (event x record x staged) cross product on the
            # configurations with at most one transition; the cross product on the two- and
            # three-transition configurations multiplies into hours and is not run
            single = ("leaf", "one", "join", "fail", "noop")
            seen = set(out)
            out = out + [s_ for s_ in full if s_[4] in single and s_ not in seen]
        return out

    # ------------------------------------------------------------------------------------------
    def run_split(self, ctx, split):
        kind, ev_c, rec_c, stg_c, cfg = split
        targets = CONFIGS[cfg]
        first = [True]

        def thunk(e):
            info = {"event": "%s:%s" % (kind, ev_c), "record": rec_c, "staged": stg_c, "config": cfg}
            e.overrides[json_util.deepcopy] = cbase.deepcopy_model
            log = cbase.CallLog()
            task_id = T if kind != "engine" else ev_c
            has_items = kind == "item"
            may_complete = kind in ("action", "item") and ev_c in st.COMPLETED_STATUSES and rec_c is not None
            # the retry / terminal-workflow variants multiply with the outcomes of every transition: they are
            # explored on the single-transition configurations (quick: on "one" only); the configurations with
            # two or three transitions get the running workflow (thorough: also canceling and failed)
            multi = cfg not in ("leaf", "one", "join", "fail", "noop")
            light = (cfg != "one") if ctx.tier != "thorough" else multi
            # a record waiting to be retried always carries its retry settings
            has_retry = (rec_c == st.RETRYING and kind == "action") or \
                (may_complete and not light and e.branch(S.mk_bool("has_retry").z))
            # a completing report may also arrive late, in a workflow that is already canceled (a pending
            # or paused task is not active: the cancel request completes at once)
            late = [st.CANCELED] if may_complete else []
            if ctx.tier == "thorough":
                cases = [st.RUNNING, st.CANCELING, st.FAILED] if multi else (WF_CASES + late)
            else:
                cases = [st.RUNNING] if light else [st.RUNNING, st.FAILED] + late
            wf_status = cases[e.choose(len(cases))]

            # ---------------- pre-state
            sequence, tasks, staged, contexts = [], {}, [], [{"root": 1}, {"inherited": 1}, {"other_branch": 1}]
            other_rec = {"id": "x0", "route": 0, "ctxs": {"in": [0]}, "prev": {}, "next": {"t__t0": True},
                         "status": st.SUCCEEDED}
            sequence.append(other_rec)
            tasks["x0__r0"] = 0
            rec = None
            if rec_c is not None:
                rec = {"id": task_id, "route": 0, "ctxs": {"in": [0, 1]}, "prev": {"x0__t0": 0}, "next": {},
                       "status": rec_c}
                if has_retry:
                    rec["retry"] = {"when": None if e.branch(S.mk_bool("when_none").z) else "<% w %>",
                                    "count": S.mk_int("count"), "tally": S.mk_int("tally"), "delay": S.mk_int("retry_delay")}
                if rec_c in st.COMPLETED_STATUSES and e.branch(S.mk_bool("decided_before").z):
                    for i, tg in enumerate(targets):
                        rec["next"][tid_of(tg, i)] = S.mk_bool("old_next%d" % i)
                sequence.append(rec)
                tasks["%s__r0" % task_id] = len(sequence) - 1
            stg = None
            if stg_c == "maybe":
                stg_present = e.branch(S.mk_bool("staged_present").z)
            else:
                stg_present = stg_c != "absent"
            if stg_present:
                stg = {"id": task_id, "route": 0, "ctxs": {"in": [0, 1]}, "prev": {"x0__t0": 0}, "ready": True}
                if stg_c == "items_completed":
                    stg["completed"] = True
                if has_items:
                    stg["items"] = [{"status": S.mk_const("item%d" % i, st.ALL_STATUSES)} for i in range(2)]
                    # a with-items task keeps its staged entry: from its first retry on the entry carries
                    # the retry mark of that earlier retry
                    if has_retry and e.branch(S.mk_bool("staged_marked_by_earlier_retry").z):
                        stg["retry"] = cbase.snapshot(rec["retry"])
                    for it in stg["items"]:
                        e.assume(it["status"].dom_constraint())
                staged.append(stg)
            tgt_pre = {}
            for tg in dict.fromkeys(targets):
                if tg in COMMANDS:
                    continue
                if e.branch(S.mk_bool("pre_staged_%s" % tg).z):
                    # staged by another branch that arrived earlier carrying a context (2) published AFTER
                    # the one the reporting task inherited (1): arrival order and publish order differ
                    ent = {"id": tg, "route": 0, "ctxs": {"in": [0, 2]}, "prev": {"y__t0": 0},
                           "ready": S.mk_bool("pre_ready_%s" % tg)}
                    staged.append(ent)
                    tgt_pre[tg] = ent
            # a join target whose execution (for an already satisfied barrier) is still in flight
            join_running = False
            if "j1" in targets and "j1" not in tgt_pre and e.branch(S.mk_bool("join_already_running").z):
                join_running = True
                sequence.append({"id": "j1", "route": 0, "ctxs": {"in": [0]}, "prev": {"y__t0": 0}, "next": {}, "status": st.RUNNING})
                tasks["j1__r0"] = len(sequence) - 1
            # an unrelated branch's entry, staged earlier (ready or not): must never be touched
            unrelated = {"id": "z9", "route": 0, "ctxs": {"in": [0]}, "prev": {"y__t0": 0}, "ready": S.mk_bool("unrelated_ready")}
            staged.append(unrelated)
            snap_seq = [cbase.snapshot(r) for r in sequence]
            seq_ids = list(sequence)
            snap_ctx = list(contexts)
            snap_staged = {id(x): cbase.snapshot(x) for x in staged}
            staged_pre_objs = list(staged)

            # ---------------- abstract graph / spec
            crit = {}

            def get_next_transitions(eng, tid):
                if tid != T:
                    return []
                out = []
                for i, tg in enumerate(targets):
                    out.append((T, tg, i, {"criteria": ["crit%d" % i], "ref": i}))
                return sorted(out, key=lambda x: x[1])

            def get_task_retry_spec(eng, tid):
                return {"when": None, "count": "<% ctx().spec_count %>", "delay": "<% ctx().spec_delay %>"} if (tid == T and has_retry) else None

            graph = AbstractObj(
                "graph",
                has_task=Stub("has_task", lambda eng, x: x in ALL_TASKS),
                get_next_transitions=Stub("get_next_transitions", get_next_transitions),
                get_task=Stub("get_task", lambda eng, x: {"id": x}),
                task_has_retry=Stub("task_has_retry", lambda eng, x: x == T and has_retry),
                get_task_retry_spec=Stub("get_task_retry_spec", get_task_retry_spec),
                has_barrier=Stub("has_barrier", lambda eng, x: x == "j1"),
                get_barrier=Stub("get_barrier", lambda eng, x: "*" if x == "j1" else None),
                get_barriers=Stub("get_barriers", lambda eng: {"j1": {"barrier": "*"}} if "j1" in targets else {}),
                in_cycle=Stub("in_cycle", lambda eng, x: []))

            pub = {}

            def finalize_context(eng, next_task_name, transition, in_ctx):
                i = transition[2]
                log.add("finalize", i, next_task_name)
                k = eng.choose(3)
                pub[i] = ("empty", "delta", "error")[k]
                if k == 0:
                    return {}, {}, []
                if k == 1:
                    return {}, {"v%d" % i: S.mk_val("published%d" % i)}, []
                return {}, {}, [SymExc(exc.ExpressionEvaluationException, ("publish failed",))]

            def spec_get_task(eng, x):
                return AbstractObj("task_spec_%s" % x,
                                   has_items=Stub("has_items", lambda en: x == T and has_items),
                                   finalize_context=Stub("finalize_context", finalize_context))

            spec = AbstractObj("spec", tasks=AbstractObj(
                "spec.tasks", get_task=Stub("get_task", spec_get_task),
                is_split_task=Stub("is_split_task", lambda eng, x: False)))

            c, ws = cbase.new_conductor(wf_status, staged=staged, sequence=sequence, tasks=tasks,
                                        contexts=contexts, graph=graph, spec=spec)

            # ---------------- contract stubs for callees verified elsewhere
            def evaluate(eng, statement, data=None):
                if isinstance(statement, str) and statement.startswith("crit"):
                    i = int(statement[4:])
                    k = eng.choose(3)
                    crit[i] = ("true", "false", "raises")[k]
                    log.add("evaluate", statement)
                    if k == 2:
                        raise Raised(exc.ExpressionEvaluationException, ("criteria failed",))
                    return k == 0
                log.add("evaluate", statement)
                if eng.branch(S.mk_bool("eval_raises").z):
                    raise Raised(exc.ExpressionEvaluationException, ("evaluation failed",))
                if statement is None:
                    return None
                return S.mk_bool("eval_truthy")

            def make_task_context(eng, self_, entry, task_result=None):
                log.add("make_task_context", entry, task_result)
                return {"__ctx": True}

            inbound = {}

            def gics(eng, self_, tid, route):
                if tid not in inbound:
                    inbound[tid] = S.mk_const("inbound_%s" % tid, (
                        constants.INBOUND_CRITERIA_SATISFIED, constants.INBOUND_CRITERIA_WIP,
                        constants.INBOUND_CRITERIA_NOT_SATISFIED))
                    eng.assume(inbound[tid].dom_constraint())
                    if tid != "j1":
                        # a non-join task has barrier 1: one satisfied inbound transition satisfies it
                        eng.assume(inbound[tid].z == S.INTERN.id_of(constants.INBOUND_CRITERIA_SATISFIED))
                log.add("gics", tid, route)
                return inbound[tid]

            def log_entry(eng, self_, entry_type, message, **kw):
                log.add("log_entry", entry_type, message, **kw)

            def log_error(eng, self_, err, task_id=None, route=None, task_transition_id=None):
                log.add("log_error", err, task_id=task_id, route=route, tid=task_transition_id)

            wf_consults = []
            real_wf_pe = machines.WorkflowStateMachine.__dict__["process_event"].__func__

            def wf_process_event(eng, cls, wstate, event):
                if isinstance(event, events.TaskExecutionEvent):
                    latest = sequence[tasks["%s__r%s" % (event.task_id, event.route)]]
                    wf_consults.append((event.task_id, event.status, latest.get("status"), latest))
                del eng.overrides[real_wf_pe]
                try:
                    return eng.call_function(real_wf_pe, [cls, wstate, event], {})
                finally:
                    eng.overrides[real_wf_pe] = wf_process_event

            e.overrides[expr_base.evaluate] = evaluate
            e.overrides[conducting.WorkflowConductor.make_task_context] = make_task_context
            e.overrides[conducting.WorkflowConductor.get_inbound_criteria_status] = gics
            e.overrides[conducting.WorkflowConductor.log_entry] = log_entry
            e.overrides[conducting.WorkflowConductor.log_error] = log_error
            e.overrides[conducting.WorkflowConductor._evaluate_route] = lambda eng, self_, tr, route: route
            e.overrides[real_wf_pe] = wf_process_event

            # ---------------- the event
            if kind == "action":
                event = e.call(events.ActionExecutionEvent, [ev_c], {"result": S.mk_val("result")})
            elif kind == "item":
                item_id = e.choose(2)
                event = e.call(events.TaskItemActionExecutionEvent, [item_id, ev_c], {"result": S.mk_val("result")})
            else:
                event = e.call(events.ENGINE_EVENT_MAP[ev_c], [], {})

            raised = None
            ret = None
            try:
                ret = e.call(conducting.WorkflowConductor.update_task_state, [c, task_id, 0, event], {})
            except Raised as r:
                raised = r
            if first[0]:
                ctx.canary()
                first[0] = False

            # =============================== obligations ===============================
            info.update({"wf_status": wf_status, "has_retry": has_retry, "criteria": dict(crit), "publish": dict(pub),
                         "raised": repr(raised) if raised else None,
                         "calls": [c_[0] for c_ in log.calls][:12]})
            vals = {"raised": raised, "where": getattr(raised, "where", None) or ""}
            O = lambda name, claim: ctx.oblige(name, claim, vals, dict(info))
            validation = raised is not None and raised.cls in (exc.InvalidTaskStateEntry, exc.InvalidTask, TypeError) \
                and "update_task_state" in (raised.where or "")
            O("C11.uts.contained", raised is None or validation)
            if raised is not None:
                if wf_status in (st.FAILED, st.SUCCEEDED, st.CANCELED) and not validation:
                    O("C04.uts.late_report_absorbed", False)
                return
            cur = sequence[tasks["%s__r0" % task_id]]
            old_status = rec_c if rec_c is not None else st.UNSET
            new_status = cur.get("status", st.UNSET)
            appended = sequence[len(seq_ids):]
            fresh_record = cur is not rec
            completed_now = new_status in st.COMPLETED_STATUSES and (fresh_record or new_status != old_status)
            retried = any(x.get("retry") is not None and x is not stg for x in staged if x["id"] == task_id) \
                and new_status == st.RETRYING

            # late report on a terminal workflow
            if wf_status in (st.FAILED, st.CANCELED):
                O("C04.uts.late_report_absorbed", ws.status == wf_status)

            # a late item report on a completed with-items task (entry gone or flagged completed) is absorbed:
            # no new record, status and decisions of the finished record unchanged, nothing staged
            if kind == "item" and rec_c in st.COMPLETED_STATUSES and stg_c in ("absent", "items_completed"):
                O("C04.uts.late_item_report_absorbed", cur is rec and len(sequence) == len(seq_ids) and new_status == rec_c
                  and not [x for x in staged if id(x) not in snap_staged])
            else:
                O("C04.uts.late_item_report_absorbed", True)

            # links
            for (tid_, evs, recs, latest) in wf_consults:
                O("C02.uts.links", evs == recs)
            O("C02.uts.links", len([w for w in wf_consults if w[0] == task_id]) == 1)

            # decided-once / stage-only-if-true
            decided = {k: v for k, v in cur["next"].items()} if not fresh_record or True else {}
            next_written = (fresh_record and bool(cur["next"])) or \
                (not fresh_record and not _same(e, cur["next"], snap_seq[seq_ids.index(rec)]["next"]) if rec is not None and not fresh_record else False)
            ctx_grew = len(contexts) > len(snap_ctx)
            touched = [x for x in staged if id(x) not in snap_staged and x["id"] != task_id] + \
                      [x for x in staged_pre_objs if x in staged and x["id"] != task_id
                       and not _same(e, x, snap_staged[id(x)])]
            O("C18.uts.decided_once", (not next_written and not ctx_grew and not touched) or completed_now)

            true_idx = [i for i in crit if crit[i] == "true" and pub.get(i) != "error"]
            for x in touched:
                justified = any(targets[i] == x["id"] for i in true_idx)
                O("C01.uts.stage_only_if_true", justified and completed_now)
            if not touched:
                O("C01.uts.stage_only_if_true", True)
            if completed_now and not retried:
                for i in true_idx:
                    tg = targets[i]
                    if tg in COMMANDS:
                        ok = any(r["id"] == tg and r.get("status") in (st.SUCCEEDED, st.FAILED) for r in appended)
                    else:
                        ok = any(x["id"] == tg and x["route"] == 0 for x in staged)
                    O("C01.uts.true_transition_staged", ok)
            O("C01.uts.true_transition_staged", True)

            if completed_now and not retried and task_id == T and kind != "engine":
                none_taken = not any(v_ == "true" for v_ in crit.values())
                if none_taken and not any(v_ == "raises" for v_ in crit.values()):
                    O("C09.uts.leaf_is_terminal", cur.get("term") is True)
            O("C09.uts.leaf_is_terminal", True)
            # criteria / publish errors
            for i, outcome in crit.items():
                t_id = tid_of(targets[i], i)
                if outcome == "raises":
                    logged = any(c_[2].get("task_id") == T and c_[2].get("route") == 0 and c_[2].get("tid") == t_id
                                 for c_ in log.named("log_error"))
                    O("C11.uts.criteria_error", logged and ws.status in (st.FAILED, st.CANCELED)
                      and not any(x["id"] == targets[i] for x in touched if targets.count(targets[i]) == 1))
            for i, outcome in pub.items():
                t_id = tid_of(targets[i], i)
                if outcome == "error":
                    logged = any(c_[2].get("tid") == t_id and c_[2].get("task_id") == T for c_ in log.named("log_error"))
                    others_true = any(j != i and targets[j] == targets[i] and j in true_idx for j in crit)
                    O("C11.uts.publish_error", logged and ws.status in (st.FAILED, st.CANCELED)
                      and (others_true or not any(x["id"] == targets[i] for x in touched)))
            O("C11.uts.criteria_error", True)
            O("C11.uts.publish_error", True)

            # append-only
            ok = len(sequence) >= len(seq_ids) and all(sequence[i] is seq_ids[i] for i in range(len(seq_ids)))
            ok = ok and all(contexts[i] is snap_ctx[i] for i in range(len(snap_ctx)))
            for i, r in enumerate(seq_ids):
                if r is cur:
                    continue
                ok = ok and _same(e, {k: r.get(k) for k in ("status", "ctxs", "prev", "next", "id", "route")},
                                  {k: snap_seq[i].get(k) for k in ("status", "ctxs", "prev", "next", "id", "route")})
            if rec is not None and cur is rec:
                ok = ok and _same(e, rec["ctxs"]["in"], snap_seq[seq_ids.index(rec)]["ctxs"]["in"]) \
                    and _same(e, rec["prev"], snap_seq[seq_ids.index(rec)]["prev"])
            O("C18.uts.append_only", ok)
            if rec_c in st.COMPLETED_STATUSES and ev_c in st.STARTING_STATUSES and stg is not None and kind == "action":
                O("C18.uts.cycle_appends", fresh_record and _same(
                    e, {k: v for k, v in rec.items() if k != "term"},
                    {k: v for k, v in snap_seq[seq_ids.index(rec)].items() if k != "term"}))

            # retry
            if retried:
                old_tally = snap_seq[seq_ids.index(rec)]["retry"]["tally"] if rec is not None and "retry" in rec else None
                entry = [x for x in staged if x["id"] == task_id and x.get("retry") is not None][0]
                tally_ok = True
                if old_tally is not None and cur is rec:
                    tally_ok = e.zbool_of(e.sym_eq(cur["retry"]["tally"], SInt(old_tally.z + 1)))
                # the entry is staged with the record's own (evaluated) retry settings: same condition,
                # count, delay and tally as the record holds after the increment
                settings_ok = _same(e, entry["retry"], cur["retry"]) if "retry" in cur else False
                O("C13.uts.no_transition_on_retry",
                  z3.And(z3.BoolVal(not next_written and not touched and not ctx_grew and not crit
                                    and entry["ready"] is True and len([x for x in staged if x["id"] == task_id]) == 1),
                         settings_ok if not isinstance(settings_ok, bool) else z3.BoolVal(settings_ok),
                         tally_ok if not isinstance(tally_ok, bool) else z3.BoolVal(tally_ok)))
            else:
                O("C13.uts.no_transition_on_retry", True)

            # a report that does not move the record INTO retrying is not a retry: nothing is counted,
            # nothing is staged again (an acknowledged or ignored report on a record that is waiting to
            # be retried, in particular)
            if rec is not None and "retry" in rec and cur is rec and not (new_status == st.RETRYING and old_status != st.RETRYING):
                old_tally = snap_seq[seq_ids.index(rec)]["retry"]["tally"]
                same_tally = e.zbool_of(e.sym_eq(cur["retry"]["tally"], old_tally))
                restaged = [x for x in staged if x["id"] == task_id and x is not stg]
                O("C13.uts.retry_counted_once", z3.And(same_tally, z3.BoolVal(not restaged)))
            else:
                O("C13.uts.retry_counted_once", True)
            O("C13.uts.retry_only_while_active", not (new_status == st.RETRYING and old_status != st.RETRYING
                                                     and wf_status not in st.ACTIVE_STATUSES))
            O("C13.uts.retry_only_on_completing_report",
              not (new_status == st.RETRYING and old_status in st.COMPLETED_STATUSES and not fresh_record))
            # consumed on start
            if kind == "action" and stg is not None and not retried:
                O("C01.uts.consumed_on_start", not any(x is stg for x in staged))
            # ready flag
            for x in touched:
                if x["id"] in COMMANDS or x["id"] not in inbound:
                    continue
                want = inbound[x["id"]].z == S.INTERN.id_of(constants.INBOUND_CRITERIA_SATISFIED)
                got = x["ready"]
                gz = got.z if isinstance(got, SBool) else z3.BoolVal(bool(got))
                O("C07.uts.ready_from_satisfied", gz == want)
            O("C07.uts.ready_from_satisfied", True)
            if join_running:
                restaged = [x for x in staged if x["id"] == "j1"]
                rz = z3.Or([(x["ready"].z if isinstance(x["ready"], SBool) else z3.BoolVal(bool(x["ready"]))) for x in restaged]) \
                    if restaged else z3.BoolVal(False)
                ctx.oblige("C07.uts.join_not_restaged_while_running", z3.Not(rz),
                           {"late_arrival_at_running_join": True}, dict(info))
            else:
                O("C07.uts.join_not_restaged_while_running", True)
            # run_on_fail
            fail_true = any(targets[i] == "fail" for i in true_idx)
            for x in staged:
                if "run_on_fail" in x and id(x) not in snap_staged or ("run_on_fail" in x and "run_on_fail" not in snap_staged.get(id(x), {})):
                    rdy = x["ready"]
                    rz = rdy.z if isinstance(rdy, SBool) else z3.BoolVal(bool(rdy))
                    O("C04.uts.run_on_fail_marking", z3.And(z3.BoolVal(fail_true and x["id"] not in COMMANDS and completed_now), rz))
            O("C04.uts.run_on_fail_marking", True)
            # ... and every ready clean-up task staged beside a taken fail command IS marked, whatever
            # other commands (noop, continue) the same task takes before or after the fail
            if fail_true and completed_now:
                for i in true_idx:
                    if targets[i] in COMMANDS:
                        continue
                    for x in staged:
                        if x["id"] == targets[i] and (id(x) not in snap_staged or x in touched):
                            rdy = x["ready"]
                            rz = rdy.z if isinstance(rdy, SBool) else z3.BoolVal(bool(rdy))
                            O("C04.uts.cleanup_marked", z3.Implies(rz, z3.BoolVal(x.get("run_on_fail") is True)))
            O("C04.uts.cleanup_marked", True)
            O("C18.uts.unrelated_staged_untouched", unrelated in staged and _same(e, unrelated, snap_staged[id(unrelated)]))
            # separation
            for r in appended:
                for x in staged:
                    if x["id"] == r["id"] and x["route"] == r["route"]:
                        O("C05.sep.record_creation", r["ctxs"]["in"] is not x["ctxs"]["in"] and r["prev"] is not x["prev"])
            O("C05.sep.record_creation", True)
            shared = False
            for x in staged:
                for r in sequence:
                    if x["ctxs"]["in"] is r["ctxs"]["in"] or x["prev"] is r["prev"] or \
                            (x.get("retry") is not None and x.get("retry") is r.get("retry")):
                        shared = True
            O("C05.sep.staged_vs_records", not shared)
            # context indices
            n_delta = len([i for i in true_idx if pub.get(i) == "delta"]) if completed_now and not retried else 0
            O("C06.uts.ctx_indices", len(contexts) - len(snap_ctx) == n_delta)
            if completed_now and not retried:
                for x in touched:
                    idxs = x["ctxs"]["in"]
                    new_ones = [q for q in idxs if isinstance(q, int) and q >= len(snap_ctx)]
                    mine = [i for i in true_idx if targets[i] == x["id"] and pub.get(i) == "delta"]
                    O("C06.uts.ctx_indices", len(new_ones) == len(mine) and (idxs.count(0) == 1))
                    # what the completing task had received is handed on: a newly staged successor starts
                    # from the task's own context pointers, an already staged one keeps its own and gains
                    # the task's non-root ones
                    mine_in = list(cur["ctxs"]["in"])
                    before = snap_staged[id(x)]["ctxs"]["in"] if id(x) in snap_staged else None
                    handed_on = all(q in idxs for q in mine_in if q != 0)
                    prefix_ok = (idxs[:len(mine_in)] == mine_in) if before is None else (idxs[:len(before)] == before)
                    # ... and nothing is handed on twice: a context the successor already holds (from another
                    # transition of this task, or inherited on both sides) applied again would put an older
                    # value back over a newer one
                    once = len(set(idxs)) == len(idxs)
                    # ... in arrival order: what this (later) arrival brings goes after everything the entry
                    # already held, whatever the numbers of the contexts (their publish order) are
                    if before is not None:
                        brought = [q for q in mine_in if q != 0 and q not in before]
                        prefix_ok = prefix_ok and idxs[:len(before) + len(brought)] == list(before) + brought
                    O("C06.uts.ctx_inherited", handed_on and prefix_ok and once and idxs is not cur["ctxs"]["in"])
            O("C06.uts.ctx_inherited", True)
            if retried:
                entry_ = [x for x in staged if x["id"] == task_id and x.get("retry") is not None][0]
                O("C06.uts.ctx_inherited", entry_["ctxs"]["in"] == cur["ctxs"]["in"] and entry_["ctxs"]["in"] is not cur["ctxs"]["in"]
                  and _same(e, entry_["prev"], cur["prev"]))
            # item status
            if kind == "item" and stg is not None and stg in staged:
                items = stg.get("items")
                if isinstance(items, list) and len(items) == 2:
                    other = 1 - item_id
                    O("C12.uts.item_status_recorded", items[item_id].get("status") == ev_c
                      and items[other] is snap_staged[id(stg)]["items"][other] or _same(e, items[other], snap_staged[id(stg)]["items"][other]))

        ctx.eng.explore(thunk)
        ctx.bounded.append({"unit": self.name, "bound": "K<=2 transitions, <=2 items, single route", "split": list(map(str, split))})


def _same(eng, a, b):
    r = cbase.same_structure(eng, a, b)
    if isinstance(r, bool):
        return r
    r = z3.simplify(r)
    if z3.is_true(r):
        return True
    if z3.is_false(r):
        return False
    # undecided symbolic equality: treat as 'same' only if provable under the path condition
    res, _, _ = eng._check(z3.Not(r))
    return res == z3.unsat
