"""Layer M (tasks): contracts on orquesta.machines.TaskStateMachine — the task status table and its
contextualisers, including the with-items rows over an item list of *unbounded* symbolic length."""
import z3

from orquesta import events, exceptions as exc, machines
from contracts import specconst as st
from orquesta.utils import jsonify as json_util

from pyvc import seqlib, sym as S
from pyvc.engine import AbstractObj, Raised, Stub
from pyvc.framework import Unit
from pyvc.spec import AND, OR, NOT, IMPLIES, IFF, EQ, NE, IN, NOTIN
from pyvc.sym import SConst, SInt, SList, INTERN


def task_statuses():
    return list(machines.TASK_STATE_MACHINE_DATA.keys())


def deepcopy_model(eng, value):
    """Assumed contract of orquesta.utils.jsonify.deepcopy: a fresh structural copy."""
    if isinstance(value, SList):
        return SList(value.length, value.get, value.name + "_copy", value.tainted)
    if isinstance(value, S.Sym):
        return value
    if isinstance(value, S.OptField):
        return S.OptField(value.present, deepcopy_model(eng, value.value))
    if isinstance(value, dict):
        return {k: deepcopy_model(eng, v) for k, v in value.items()}
    if isinstance(value, list):
        return [deepcopy_model(eng, v) for v in value]
    if isinstance(value, tuple):
        return [deepcopy_model(eng, v) for v in value]
    return json_util.deepcopy(value)


# ================================================================================================
# plain action events and engine commands
# ================================================================================================
# P2: statuses a provider reports for an action (retrying and unset are engine-internal)
ACTION_STATUSES = [s for s in st.ALL_STATUSES if s not in (st.UNSET, st.RETRYING)]

ENGINE_EVENTS = {"continue": events.TaskContinueEvent, "noop": events.TaskNoopEvent,
                 "fail": events.TaskFailEvent, "retry": events.TaskRetryEvent}


def a_follows_action(v):
    """the task status follows the reported action status (timeout/abandon count as failed)"""
    return IMPLIES(AND(NOT(v["raised"]), v["is_action"]),
                   OR(EQ(v["new"], v["cur"]), EQ(v["new"], v["ev"]),
                      AND(IN(v["ev"], [st.EXPIRED, st.ABANDONED]), EQ(v["new"], st.FAILED)),
                      # a canceling task whose action reports paused is canceled (documented row)
                      AND(EQ(v["cur"], st.CANCELING), EQ(v["ev"], st.PAUSED), EQ(v["new"], st.CANCELED))))


def a_completed_rows(v):
    """a completed task status changes only through an engine retry request"""
    return IMPLIES(IN(v["cur"], st.COMPLETED_STATUSES),
                   OR(EQ(v["new"], v["cur"]),
                      AND(EQ(v["evname"], events.TASK_RETRY_REQUESTED), EQ(v["new"], st.RETRYING))))


def a_retry_rows(v):
    """task_retry_requested is accepted exactly from succeeded / failed and yields retrying"""
    return IMPLIES(EQ(v["evname"], events.TASK_RETRY_REQUESTED),
                   AND(IMPLIES(IN(v["cur"], [st.SUCCEEDED, st.FAILED]), EQ(v["new"], st.RETRYING)),
                       IMPLIES(NOTIN(v["cur"], [st.SUCCEEDED, st.FAILED]), EQ(v["new"], v["cur"]))))


def a_engine_commands(v):
    """continue/noop records succeed, a fail command record fails (from a fresh record)"""
    return AND(
        IMPLIES(AND(EQ(v["cur"], st.UNSET), IN(v["evname"], [events.TASK_CONTINUE_REQUESTED,
                                                              events.TASK_NOOP_REQUESTED])),
                EQ(v["new"], st.SUCCEEDED)),
        IMPLIES(AND(EQ(v["cur"], st.UNSET), EQ(v["evname"], events.TASK_FAIL_REQUESTED)),
                EQ(v["new"], st.FAILED)))


def a_no_internal_error(v):
    return NOT(v["raised"])


def a_completion_completes(v):
    """a completion report for a task whose action is in flight completes the task (otherwise the
    record stays active for ever and the workflow can never come to rest)"""
    return IMPLIES(AND(IN(v["cur"], [st.RUNNING, st.PENDING, st.PAUSING, st.CANCELING]),
                       IN(v["ev"], st.COMPLETED_STATUSES), v["is_action"]),
                   IN(v["new"], st.COMPLETED_STATUSES))


def a_start_starts(v):
    """a starting report (requested / scheduled / delayed / running / pending) on a fresh record, or on
    a record re-staged for a retry, is taken as reported: an offered attempt that the provider
    acknowledges is in flight from then on, whether it is the first attempt or a retried one"""
    return AND(IMPLIES(AND(IN(v["cur"], [st.UNSET, st.RETRYING]), IN(v["ev"], st.STARTING_STATUSES), v["is_action"]),
                       EQ(v["new"], v["ev"])),
               # ... and so is the acknowledgement of a paused task that continues (its next item, or its
               # action resumed by the provider)
               IMPLIES(AND(EQ(v["cur"], st.PAUSED), IN(v["ev"], [st.REQUESTED, st.SCHEDULED, st.DELAYED, st.RUNNING]), v["is_action"]),
                       EQ(v["new"], v["ev"])))


def a_closed(v):
    """every status the table produces is a status the table has a row for"""
    return IMPLIES(NOT(v["raised"]), IN(v["new"], task_statuses()))


ACTION_OBLIGATIONS = {
    "C02.tsm.follows_action": (["C02"], a_follows_action,
        "plain task: new status is the old one, the reported one, or failed for timeout/abandoned"),
    "C18.tsm.completed_rows": (["C18", "C04"], a_completed_rows,
        "completed task statuses accept only task_retry_requested"),
    "C13.tsm.retry_rows": (["C13"], a_retry_rows,
        "task_retry_requested accepted exactly from succeeded/failed"),
    "C02.tsm.engine_commands": (["C02", "C01"], a_engine_commands,
        "continue/noop succeed, fail fails"),
    "C15.tsm.no_internal_error": (["C15", "C02", "C04"], a_no_internal_error,
        "process_action_event raises nothing for any table status x any action/engine event"),
    "C03.tsm.completion_completes": (["C03"], a_completion_completes,
        "a completion report of an in-flight plain task completes it"),
    "C01.tsm.start_starts": (["C01", "C13"], a_start_starts,
        "a starting report (requested, scheduled, delayed, running, pending) on a fresh record or on a record waiting to be retried is taken as reported"),
    "C15.tsm.closed": (["C15"], a_closed,
        "the task table is closed: every produced status has a row"),
}


class ProcessActionEvent(Unit):
    name = "M.task.process_action_event"
    functions = [
        "orquesta.machines.TaskStateMachine.process_event",
        "orquesta.machines.TaskStateMachine.process_action_event",
        "orquesta.machines.TaskStateMachine.add_context_to_action_event",
        "orquesta.events.ActionExecutionEvent.__init__",
        "orquesta.events.TaskContinueEvent.__init__", "orquesta.events.TaskNoopEvent.__init__",
        "orquesta.events.TaskFailEvent.__init__", "orquesta.events.TaskRetryEvent.__init__",
    ]
    obligations = {k: {"props": p, "text": t} for k, (p, _, t) in ACTION_OBLIGATIONS.items()}
    assumptions = ["record status ranges over the task table's rows (closure proved: C15.tsm.closed)",
                   "P2: action events are reported with a valid status"]
    trusted = ["z3 5.1", "pyvc interpreter (cross-checked against CPython on every path in this unit)"]

    def splits(self, tier):
        evs = [("action", s) for s in ACTION_STATUSES] + \
              [("engine", k) for k in ENGINE_EVENTS]
        return [(c, e) for c in task_statuses() for e in evs]

    def make_event(self, e, kind, x):
        if kind == "action":
            return e.call(events.ActionExecutionEvent, [x], {})
        return e.call(ENGINE_EVENTS[x], [], {})

    def run_split(self, ctx, split):
        cur_c, (kind, x) = split
        first = [True]

        def thunk(e):
            e.register_input("cur", cur_c)
            e.register_input("kind", kind)
            e.register_input("x", x)
            present = True
            task_state = {"id": "t1", "route": 0}
            if cur_c != st.UNSET:
                task_state["status"] = cur_c
            ws = AbstractObj("workflow_state")
            event = self.make_event(e, kind, x)
            raised = None
            try:
                e.call(machines.TaskStateMachine.process_event, [ws, task_state, event], {})
            except Raised as r:
                raised = r
            v = {"cur": cur_c, "ev": event.status, "evname": event.name, "is_action": kind == "action",
                 "new": task_state.get("status", st.UNSET), "raised": raised is not None}
            if first[0]:
                ctx.canary()
                first[0] = False
            for name, (props, fn, text) in ACTION_OBLIGATIONS.items():
                ctx.oblige(name, fn(v), v, info={"cur": cur_c, "event": x})
            ctx.crosscheck({"new": v["new"], "raised": raised.cls.__name__ if raised else None})

        ctx.eng.explore(thunk)

    def native(self, inputs):
        task_state = {"id": "t1", "route": 0}
        if inputs["cur"] != st.UNSET:
            task_state["status"] = inputs["cur"]
        kind, x = inputs["kind"], inputs["x"]
        event = events.ActionExecutionEvent(x) if kind == "action" else ENGINE_EVENTS[x]()
        raised = None
        try:
            machines.TaskStateMachine.process_event(object(), task_state, event)
        except Exception as e:
            raised = type(e).__name__
        return {"new": task_state.get("status", st.UNSET), "raised": raised, "ev": event.status,
                "evname": event.name, "is_action": kind == "action"}

    def clause(self, name):
        return ACTION_OBLIGATIONS[name][1]


# ================================================================================================
# with-items: item events over an unbounded item list
# ================================================================================================
def fresh_items(e, name="items"):
    """Symbolic list of item records {"status": s}, s ranging over all statuses (unbounded n)."""
    arr = z3.Function(S.fresh_name(name + "_st"), z3.IntSort(), z3.IntSort())
    n = z3.Int(S.fresh_name(name + "_n"))
    e.assume(n >= 0)
    i = z3.Int(S.fresh_name("ii"))
    ids = [INTERN.id_of(s) for s in st.ALL_STATUSES]
    e.assume(z3.ForAll([i], z3.Or([arr(i) == k for k in ids]), patterns=[arr(i)]))
    return SList(n, lambda j: {"status": SConst(arr(seqlib.zidx(j)), st.ALL_STATUSES)}, name), arr, n


def others_view(e, items, k):
    """Spec-level list of the other items' statuses: items without index k (k=None: all items),
    defined through the library's own delete / map definitions applied to the *input* list."""
    xs = SList(items.length, items.get, "others")
    if k is not None:
        seqlib.slist_delete(e, xs, k)
    return seqlib.slist_map(e, xs, lambda it: it["status"], "others_status")


def others_exist(e, view, statuses_):
    """z3: exists j in the view with status in statuses_."""
    j = z3.Int(S.fresh_name("oi"))
    ids = [INTERN.id_of(s) for s in statuses_]
    return z3.Exists([j], z3.And(0 <= j, j < view.length, z3.Or([view.get(j).z == x for x in ids])))


def others_all(e, view, statuses_):
    j = z3.Int(S.fresh_name("oa"))
    ids = [INTERN.id_of(s) for s in statuses_]
    return z3.ForAll([j], z3.Implies(z3.And(0 <= j, j < view.length),
                                     z3.Or([view.get(j).z == x for x in ids])))


NOT_COMPLETED = [s for s in st.ALL_STATUSES if s not in st.COMPLETED_STATUSES]
ITEM_CONTEXT_STATUSES = [st.RESUMING, st.PENDING, st.PAUSED, st.SUCCEEDED, st.FAILED, st.EXPIRED,
                         st.ABANDONED, st.CANCELED]


# statuses in which a with-items task has, or may still get, items in flight and therefore must
# digest item reports: not yet running (its first items were acknowledged as requested / scheduled /
# delayed, or the very first report), running, being resumed; and the two "request in progress" ones
STARTLIKE = [st.UNSET, st.REQUESTED, st.SCHEDULED, st.DELAYED, st.RESUMING, st.RETRYING]
RUNLIKE = STARTLIKE + [st.RUNNING]


def i_never_complete_while_active(v):
    return IMPLIES(AND(IN(v["new"], st.COMPLETED_STATUSES), NE(v["new"], v["cur"])),
                   NOT(v["other_active"]))


def i_succeeds_iff_all_succeed(v):
    live = IN(v["cur"], RUNLIKE + [st.PAUSING, st.PAUSED])
    return AND(
        IMPLIES(AND(EQ(v["new"], st.SUCCEEDED), NE(v["cur"], st.SUCCEEDED)),
                AND(EQ(v["ev"], st.SUCCEEDED), v["others_all_succeeded"])),
        IMPLIES(AND(live, EQ(v["ev"], st.SUCCEEDED), v["others_all_succeeded"]),
                EQ(v["new"], st.SUCCEEDED)))


def i_failed_if_any_failed_and_drained(v):
    drained = AND(NOT(v["other_active"]), NOT(v["other_paused"]), NOT(v["other_canceled"]))
    return IMPLIES(AND(IN(v["cur"], RUNLIKE), IN(v["ev"], [st.SUCCEEDED] + st.ABENDED_STATUSES), drained,
                       OR(IN(v["ev"], st.ABENDED_STATUSES), v["other_abended"])),
                   EQ(v["new"], st.FAILED))


def i_running_consistent(v):
    """the task stays running after an item report only if another item is active or not yet done"""
    return IMPLIES(AND(EQ(v["new"], st.RUNNING), IN(v["ev"], st.COMPLETED_STATUSES)),
                   OR(v["other_active"], v["other_incomplete"]))


def i_item_completion_drains(v):
    """when the last active item reports a completion/pause, the task leaves the active statuses
    unless unfinished (not yet offered) items remain while it is still running"""
    return IMPLIES(AND(IN(v["cur"], RUNLIKE + [st.PAUSING, st.PAUSED, st.CANCELING]),
                       IN(v["ev"], st.COMPLETED_STATUSES + [st.PAUSED, st.PENDING]),
                       NOT(v["other_active"])),
                   OR(NOTIN(v["new"], st.ACTIVE_STATUSES),
                      AND(IN(v["cur"], RUNLIKE), EQ(v["new"], st.RUNNING), v["other_incomplete"],
                          EQ(v["ev"], st.SUCCEEDED))))


def i_pause_cancel_rows(v):
    """under a pause/cancel in progress an item report never takes the task back to running"""
    return AND(
        IMPLIES(EQ(v["cur"], st.CANCELING), IN(v["new"], [st.CANCELING, st.CANCELED, st.SUCCEEDED, st.FAILED])),
        IMPLIES(EQ(v["cur"], st.PAUSING), NOTIN(v["new"], [st.RUNNING])),
        IMPLIES(AND(EQ(v["cur"], st.CANCELING), NOT(v["other_active"]), NOT(v["others_all_succeeded"]),
                    IN(v["ev"], st.COMPLETED_STATUSES + [st.PAUSED, st.PENDING])),
                OR(EQ(v["new"], st.CANCELED), AND(EQ(v["new"], st.FAILED), IN(v["ev"], [st.FAILED, st.EXPIRED, st.ABANDONED])))))


def i_no_internal_error(v):
    return NOT(v["raised"])


ITEM_OBLIGATIONS = {
    "C12.tim.never_complete_while_active": (["C12"], i_never_complete_while_active,
        "the task never reaches a completed status while another item is active"),
    "C12.tim.succeeds_iff_all_succeed": (["C12"], i_succeeds_iff_all_succeed,
        "task succeeds iff the reporting item and all other items succeeded"),
    "C12.tim.failed_if_any_failed_and_drained": (["C12", "C02"], i_failed_if_any_failed_and_drained,
        "a task that is running - or has not reached running yet: its items were only acknowledged as requested / scheduled / delayed - with a failed item and nothing active/paused/canceled left fails"),
    "C03.tim.items_running_consistent": (["C03", "C12"], i_running_consistent,
        "task stays running after an item completes only if another item is active or unfinished"),
    "C03.tim.item_completion_drains": (["C03", "C09", "C10"], i_item_completion_drains,
        "last active item reporting => the task leaves the active statuses (or unfinished items remain to be offered), whether the task is running, not yet running (requested / scheduled / delayed / first report), resuming, pausing, paused or canceling"),
    "C10.tim.pause_cancel_rows": (["C10", "C09", "C12"], i_pause_cancel_rows,
        "item reports under cancel/pause never resume the task; drained canceling task is canceled"),
    "C15.tim.no_internal_error": (["C15", "C12"], i_no_internal_error,
        "process_task_item_event raises nothing for a valid item id"),
}


class ProcessTaskItemEvent(Unit):
    name = "M.task.process_task_item_event"
    functions = [
        "orquesta.machines.TaskStateMachine.process_task_item_event",
        "orquesta.machines.TaskStateMachine.add_context_to_task_item_event",
        "orquesta.machines.TaskStateMachine.process_event",
        "orquesta.events.TaskItemActionExecutionEvent.__init__",
    ]
    obligations = {k: {"props": p, "text": t} for k, (p, _, t) in ITEM_OBLIGATIONS.items()}
    assumptions = [
        "item list of arbitrary length n >= 0 with arbitrary statuses (universally quantified, no bound)",
        "requires: 0 <= item_id < len(items) (P2: reports only for offered items); staged entry has items",
        "json_util.deepcopy returns a fresh structural copy (assumed contract on ujson)",
        "workflow_state.get_staged_task returns the staged entry of (task, route) (proved in layer S)",
        "sequence axioms of DESIGN Appendix A (filter/map/del), cross-checked against CPython by ./check selftest",
    ]
    trusted = ["z3 5.1 (quantified VCs)", "pyvc sequence library"]
    timeout_ms = 20000

    def splits(self, tier):
        return [(c, e) for c in task_statuses() for e in ACTION_STATUSES]

    def run_split(self, ctx, split):
        cur_c, ev_c = split
        first = [True]

        def thunk(e):
            e.overrides[json_util.deepcopy] = deepcopy_model
            items, arr, n = fresh_items(e)
            items0 = SList(items.length, items.get, "items0")
            k = S.mk_int("item_id")
            e.assume(z3.And(0 <= k.z, k.z < n))
            e.register_input("cur", cur_c)
            e.register_input("ev", ev_c)
            e.register_input("items", items)
            e.register_input("item_id", k)
            staged = {"id": "t1", "route": 0, "items": items}
            ws = AbstractObj("workflow_state",
                             get_staged_task=Stub("get_staged_task", lambda eng, tid, route: staged))
            task_state = {"id": "t1", "route": 0}
            if cur_c != st.UNSET:
                task_state["status"] = cur_c
            event = e.call(events.TaskItemActionExecutionEvent, [k, ev_c], {})
            raised = None
            try:
                e.call(machines.TaskStateMachine.process_event, [ws, task_state, event], {})
            except Raised as r:
                raised = r
            view = others_view(e, items0, k)
            v = {"cur": cur_c, "ev": ev_c, "new": task_state.get("status", st.UNSET),
                 "raised": raised is not None,
                 "other_active": others_exist(e, view, st.ACTIVE_STATUSES),
                 "other_paused": others_exist(e, view, [st.PENDING, st.PAUSED]),
                 "other_canceled": others_exist(e, view, [st.CANCELED]),
                 "other_abended": others_exist(e, view, st.ABENDED_STATUSES),
                 "other_incomplete": others_exist(e, view, NOT_COMPLETED),
                 "others_all_succeeded": others_all(e, view, [st.SUCCEEDED])}
            if first[0]:
                ctx.canary()
                first[0] = False
            for name, (props, fn, text) in ITEM_OBLIGATIONS.items():
                ctx.oblige(name, fn(v), None, info={"cur": cur_c, "ev": ev_c, "n": "symbolic"})
            ctx.crosscheck({"new": v["new"], "raised": raised.cls.__name__ if raised else None})

        ctx.eng.explore(thunk)

    def native(self, inputs):
        items = [dict(x) for x in inputs["items"]]
        k = inputs["item_id"]
        if not (0 <= k < len(items)):
            return None

        class WS(object):
            def get_staged_task(self, tid, route):
                return {"id": "t1", "route": 0, "items": items}
        task_state = {"id": "t1", "route": 0}
        if inputs["cur"] != st.UNSET:
            task_state["status"] = inputs["cur"]
        raised = None
        try:
            machines.TaskStateMachine.process_event(
                WS(), task_state, events.TaskItemActionExecutionEvent(k, inputs["ev"]))
        except Exception as e:
            raised = type(e).__name__
        others = [x["status"] for i, x in enumerate(items) if i != k]
        return {"new": task_state.get("status", st.UNSET), "raised": raised,
                "other_active": any(s in st.ACTIVE_STATUSES for s in others),
                "other_paused": any(s in [st.PENDING, st.PAUSED] for s in others),
                "other_canceled": any(s == st.CANCELED for s in others),
                "other_abended": any(s in st.ABENDED_STATUSES for s in others),
                "other_incomplete": any(s not in st.COMPLETED_STATUSES for s in others),
                "others_all_succeeded": all(s == st.SUCCEEDED for s in others)}

    def clause(self, name):
        return ITEM_OBLIGATIONS[name][1]


# ================================================================================================
# workflow events pushed to active tasks (pause / cancel of with-items tasks)
# ================================================================================================
# the statuses of a with-items task to which request_workflow_status pushes a request and in which the
# task has not yet been told about a request: running, or active but not yet running
WI_ACTIVE = [st.REQUESTED, st.SCHEDULED, st.DELAYED, st.RUNNING, st.RESUMING]


def w_items_pause(v):
    """with-items task under a pause request: active items => pausing, none => paused"""
    return IMPLIES(AND(IN(v["cur"], WI_ACTIVE), IN(v["req"], st.PAUSE_STATUSES), v["has_items"],
                       v["any_incomplete"]),
                   AND(IMPLIES(v["any_active"], EQ(v["new"], st.PAUSING)),
                       IMPLIES(NOT(v["any_active"]), EQ(v["new"], st.PAUSED))))


def w_items_cancel(v):
    return IMPLIES(AND(IN(v["cur"], WI_ACTIVE), IN(v["req"], st.CANCEL_STATUSES), v["has_items"],
                       v["any_incomplete"]),
                   AND(IMPLIES(v["any_active"], EQ(v["new"], st.CANCELING)),
                       IMPLIES(NOT(v["any_active"]), EQ(v["new"], st.CANCELED))))


def w_retrying_cancel(v):
    """a task waiting for its retry is canceled by a cancel request (nothing in flight)"""
    return IMPLIES(AND(EQ(v["cur"], st.RETRYING), IN(v["req"], st.CANCEL_STATUSES), NOT(v["has_items"])),
                   EQ(v["new"], st.CANCELED))


def w_plain_untouched(v):
    """a workflow event never changes a plain (non-items) task that has an action in flight, and
    never changes any task on a non pause/cancel request"""
    return AND(
        IMPLIES(AND(NOT(v["has_items"]), NE(v["cur"], st.RETRYING)), EQ(v["new"], v["cur"])),
        IMPLIES(NOTIN(v["req"], st.PAUSE_STATUSES + st.CANCEL_STATUSES), EQ(v["new"], v["cur"])))


def w_never_completes_while_active(v):
    return IMPLIES(AND(IN(v["new"], [st.PAUSED, st.CANCELED]), NE(v["new"], v["cur"]), v["has_items"]),
                   NOT(v["any_active"]))


def w_no_internal_error(v):
    return NOT(v["raised"])


WFEV_OBLIGATIONS = {
    "C09.tsm.items_pause": (["C09", "C12"], w_items_pause,
        "with-items task (running, or active but not yet running) under pause: pausing while items active, paused when none"),
    "C10.tsm.items_cancel": (["C10", "C12"], w_items_cancel,
        "with-items task (running, or active but not yet running) under cancel: canceling while items active, canceled when none"),
    "C10.tsm.retrying_cancel": (["C10", "C13"], w_retrying_cancel,
        "a retrying task is canceled by a cancel request"),
    "C04.tsm.wf_event_frame": (["C04", "C09", "C10"], w_plain_untouched,
        "workflow events change only with-items tasks (and retrying ones) and only on pause/cancel requests"),
    "C02.tsm.items_dormant": (["C02", "C09", "C10"], w_never_completes_while_active,
        "a with-items task becomes paused/canceled by a request only with no active item"),
    "C15.tsm.wf_event_no_internal_error": (["C15"], w_no_internal_error,
        "TaskStateMachine.process_workflow_event raises nothing"),
}


class TaskProcessWorkflowEvent(Unit):
    name = "M.task.process_workflow_event"
    functions = [
        "orquesta.machines.TaskStateMachine.process_workflow_event",
        "orquesta.machines.TaskStateMachine.add_context_to_workflow_event",
        "orquesta.machines.TaskStateMachine.process_event",
    ]
    obligations = {k: {"props": p, "text": t} for k, (p, _, t) in WFEV_OBLIGATIONS.items()}
    assumptions = [
        "item list of arbitrary length with arbitrary statuses (no bound)",
        "workflow_state.get_staged_task returns the staged entry of (task, route) or None (layer S)",
        "sequence axioms of DESIGN Appendix A (map/filter)",
    ]
    trusted = ["z3 5.1 (quantified VCs)", "pyvc sequence library"]
    timeout_ms = 20000

    def splits(self, tier):
        reqs = [st.RUNNING, st.PAUSING, st.PAUSED, st.RESUMING, st.CANCELING, st.CANCELED, st.FAILED,
                st.REQUESTED, st.SCHEDULED, st.DELAYED, st.SUCCEEDED]
        return [(c, r, shape) for c in task_statuses() for r in reqs
                for shape in ("none", "noitems", "items")]

    def run_split(self, ctx, split):
        cur_c, req_c, shape = split
        first = [True]

        def thunk(e):
            e.register_input("cur", cur_c)
            e.register_input("req", req_c)
            e.register_input("shape", shape)
            arr = n = None
            if shape == "none":
                staged = None
            elif shape == "noitems":
                staged = {"id": "t1", "route": 0}
            else:
                items, arr, n = fresh_items(e)
                e.register_input("items", items)
                staged = {"id": "t1", "route": 0, "items": items}
            ws = AbstractObj("workflow_state",
                             get_staged_task=Stub("get_staged_task", lambda eng, tid, route: staged))
            task_state = {"id": "t1", "route": 0}
            if cur_c != st.UNSET:
                task_state["status"] = cur_c
            event = e.call(events.WorkflowExecutionEvent, [req_c], {})
            raised = None
            try:
                e.call(machines.TaskStateMachine.process_event, [ws, task_state, event], {})
            except Raised as r:
                raised = r
            if shape == "items":
                view = others_view(e, items, None)
                anyact = others_exist(e, view, st.ACTIVE_STATUSES)
                anyinc = others_exist(e, view, NOT_COMPLETED)
            else:
                anyact = anyinc = False
            v = {"cur": cur_c, "req": req_c, "new": task_state.get("status", st.UNSET),
                 "raised": raised is not None, "has_items": shape == "items",
                 "any_active": anyact, "any_incomplete": anyinc}
            if first[0]:
                ctx.canary()
                first[0] = False
            for name, (props, fn, text) in WFEV_OBLIGATIONS.items():
                ctx.oblige(name, fn(v), None, info={"cur": cur_c, "req": req_c, "staged": shape})
            ctx.crosscheck({"new": v["new"], "raised": raised.cls.__name__ if raised else None})

        ctx.eng.explore(thunk)

    def native(self, inputs):
        shape = inputs["shape"]
        items = [dict(x) for x in inputs.get("items", [])]
        staged = None if shape == "none" else ({"id": "t1", "route": 0} if shape == "noitems" else
                                               {"id": "t1", "route": 0, "items": items})

        class WS(object):
            def get_staged_task(self, tid, route):
                return staged
        task_state = {"id": "t1", "route": 0}
        if inputs["cur"] != st.UNSET:
            task_state["status"] = inputs["cur"]
        raised = None
        try:
            machines.TaskStateMachine.process_event(WS(), task_state, events.WorkflowExecutionEvent(inputs["req"]))
        except Exception as e:
            raised = type(e).__name__
        sts = [x["status"] for x in items]
        return {"new": task_state.get("status", st.UNSET), "raised": raised, "has_items": shape == "items",
                "any_active": any(s in st.ACTIVE_STATUSES for s in sts),
                "any_incomplete": any(s not in st.COMPLETED_STATUSES for s in sts)}

    def clause(self, name):
        return WFEV_OBLIGATIONS[name][1]
