"""Definition-side contracts (C14, C15, C19, C20): the functions that read a workflow definition are
checked against *spec functions* written from the property statements, on a generated family of small
definitions.  BOUNDED stand-in (native execution of the real functions, differential against the spec
function); never counted as proved.  The family is generated deterministically from VERIF_SEED."""
import itertools
import json
import random

from orquesta import exceptions as exc, graphing
from orquesta.composers import native as native_composer
from orquesta.specs import native as native_specs
from orquesta.specs.native.v1 import models

from pyvc.framework import Unit

COMMANDS = ["noop", "fail", "continue", "retry"]
WHENS = [None, "<% succeeded() %>", "<% failed() %>", "{{ succeeded() }}"]


# ------------------------------------------------------------------------------------------------
# spec functions (the reference semantics, from the documentation / property statements)
# ------------------------------------------------------------------------------------------------
def norm_do(do):
    if not do:
        return ["continue"]
    if isinstance(do, str):
        return [x.strip() for x in do.split(",")]
    return list(do)


def ref_next(tasks, t):
    out = []
    for i, tr in enumerate((tasks.get(t) or {}).get("next") or []):
        for name in norm_do(tr.get("do")):
            out.append((name, tr.get("when") or None, i))
    return sorted(out, key=lambda x: x[0])


def ref_prev(tasks, t):
    out = []
    for name in tasks:
        for nt in ref_next(tasks, name):
            if nt[0] == t:
                out.append((name, nt[1], nt[2]))
    return sorted(out, key=lambda x: x[0])


def ref_start(tasks):
    return sorted([(t, None, None) for t in tasks if not ref_prev(tasks, t)], key=lambda x: x[0])


def ref_graph(tasks):
    """(nodes, edges, barriers, retries, roots) the composed graph must have."""
    nodes, edges = set(), set()
    work = [t for t, _, _ in ref_start(tasks)]
    seen = set()
    barriers, retries = {}, {}
    while work:
        t = work.pop()
        if t in seen:
            continue
        seen.add(t)
        nodes.add(t)
        td = tasks.get(t) or {}
        if td.get("join") is not None:
            barriers[t] = "*" if td["join"] == "all" else td["join"]
        if td.get("retry"):
            r = td["retry"]
            retries[t] = {"when": r.get("when"), "count": r.get("count"), "delay": r.get("delay")}
        for name, when, i in ref_next(tasks, t):
            if name == "retry":
                retries[t] = {"when": when or "<% completed() %>", "count": 3}
                continue
            nodes.add(name)
            edges.add((t, name, i, when))
            if name in tasks:
                work.append(name)
    roots = sorted(t for t in nodes if not any(e[1] == t for e in edges))
    return nodes, edges, barriers, retries, roots


def _typed_eq(a, b):
    if type(a) is not type(b):
        return False
    if isinstance(a, dict):
        return [(type(k), k) for k in a] == [(type(k), k) for k in b] and all(_typed_eq(a[k], b[k]) for k in a)
    if isinstance(a, (list, tuple)):
        return len(a) == len(b) and all(_typed_eq(x, y) for x, y in zip(a, b))
    return a == b


def graph_view(g):
    G = g._graph
    nodes = set(G.nodes())
    edges = []
    for s, d, k, a in G.edges(data=True, keys=True):
        crit = a.get("criteria") or []
        edges.append((s, d, a.get("ref"), crit[0] if crit else None))
    barriers = {n: a["barrier"] for n, a in G.nodes(data=True) if "barrier" in a}
    retries = {n: a["retry"] for n, a in G.nodes(data=True) if a.get("retry")}
    roots = sorted(x["id"] for x in g.roots)
    return nodes, edges, barriers, retries, roots


# ------------------------------------------------------------------------------------------------
# definition family
# ------------------------------------------------------------------------------------------------
def do_notations(names, rng):
    """the documented notations of one `do` value"""
    if len(names) == 1:
        return [names[0], [names[0]]]
    return [list(names), ", ".join(names), ",".join(names), " , ".join(names)]


def gen_tasks(rng, n_tasks=3, allow_undefined=False, allow_reserved=False, allow_dup=False, allow_ws=False):
    names = ["t%d" % i for i in range(1, n_tasks + 1)]
    if allow_reserved and rng.random() < 0.3:
        names[-1] = rng.choice(["noop", "fail", "retry", "continue"])
    pool = names + ["noop", "fail", "retry"] + (["tx", "ty"] if allow_undefined else [])
    tasks = {}
    for t in names:
        td = {"action": "core.noop"}
        trs = []
        for _ in range(rng.choice([0, 1, 1, 2])):
            k = rng.choice([1, 1, 2])
            targets = rng.sample(pool, k)
            if allow_dup and k == 2 and rng.random() < 0.35:
                targets = [targets[0], targets[0]]        # the same target named twice in one `do`
            tr = {}
            w = rng.choice(WHENS)
            if w:
                tr["when"] = w
            if rng.random() < 0.3:
                tr["publish"] = [{"v": 1}]
            if rng.random() < 0.15 and (tr.get("publish") or tr.get("when")):
                pass  # `do` omitted: means continue
            else:
                if allow_dup and len(set(targets)) < len(targets):
                    tr["do"] = rng.choice([", ".join(targets), ",".join(targets)])   # only the string form admits it
                else:
                    tr["do"] = rng.choice(do_notations(targets, rng))
                if allow_ws and isinstance(tr["do"], list) and rng.random() < 0.3:
                    # a quoted list-form name with a blank is a different (undefined) name: taken as written
                    tr["do"] = [x + " " if rng.random() < 0.5 else " " + x for x in tr["do"]]
            trs.append(tr)
        if trs:
            td["next"] = trs
        if rng.random() < 0.2:
            td["join"] = rng.choice(["all", 1, 2, 0])
        if rng.random() < 0.15:
            td["retry"] = {"count": rng.choice([1, 2]), "delay": 1}
        tasks[t] = td
    return tasks


def family(seed, n, **kw):
    rng = random.Random(seed)
    return [gen_tasks(rng, n_tasks=rng.choice([2, 3, 3, 4]), **kw) for _ in range(n)]


def wf(tasks):
    return native_specs.WorkflowSpec({"version": 1.0, "tasks": tasks})


def longform(tasks):
    """the same definition with every `do` in list form and an omitted `do` written as continue"""
    out = json.loads(json.dumps(tasks))
    for td in out.values():
        for tr in td.get("next") or []:
            tr["do"] = norm_do(tr.get("do"))
    return out


# ------------------------------------------------------------------------------------------------
class DefinitionReaders(Unit):
    bounded = True
    name = "D.definition_readers"
    functions = [
        "orquesta.specs.native.v1.models.TaskMappingSpec.get_next_tasks",
        "orquesta.specs.native.v1.models.TaskMappingSpec.get_prev_tasks",
        "orquesta.specs.native.v1.models.TaskMappingSpec.get_start_tasks",
        "orquesta.specs.native.v1.models.TaskMappingSpec.is_join_task",
        "orquesta.specs.native.v1.models.TaskMappingSpec.is_split_task",
        "orquesta.specs.native.v1.models.TaskTransitionSpec.__init__",
        "orquesta.composers.native.WorkflowComposer._compose_wf_graph",
        "orquesta.graphing.WorkflowGraph.serialize", "orquesta.graphing.WorkflowGraph.deserialize",
        "orquesta.specs.native.v1.models.TaskMappingSpec.detect_undefined_tasks",
        "orquesta.specs.native.v1.models.TaskMappingSpec.detect_reserved_names",
        "orquesta.specs.native.v1.models.TaskMappingSpec.detect_start_tasks",
    ]
    obligations = {
        "C14.spec.next_prev_start": {"props": ["C14", "C20"], "text":
            "get_next_tasks / get_prev_tasks / get_start_tasks equal the spec functions: one (target, condition, position) per name of each transition's `do` in any documented notation (list, comma string with or without blanks, omitted = continue), sorted by name"},
        "C14.compose.exact": {"props": ["C14", "C01"], "text":
            "the composed graph has exactly the tasks reachable from the start tasks, exactly one edge per (task, transition position, target) with that transition's condition and position, barrier and retry attributes exactly where join / retry (spec or command) are declared, and its roots are the start tasks"},
        "C14.compose.order_independent": {"props": ["C14", "C19"], "text":
            "composing the same tasks declared in another order gives the same graph (serialised form identical)"},
        "C05.spec.roundtrip": {"props": ["C05", "C16"], "text":
            "WorkflowSpec.deserialize(spec.serialize()) carries exactly the same definition (type-exact, including mapping keys that are not strings) and serialises identically"},
        "C14.graph.roundtrip": {"props": ["C14", "C05"], "text":
            "WorkflowGraph.deserialize(serialize(g)) serialises identically, including the keys of parallel edges"},
        "C20.shorthand.same_graph": {"props": ["C20"], "text":
            "a definition and its long form (every `do` a list, omitted `do` = continue) compose to the same graph and get the same inspection verdict"},
        "C15.detect.undefined_complete": {"props": ["C15"], "text":
            "inspection reports every reachable transition to a task that is neither defined nor an engine command, with the exact name as written in list form / stripped in string form, and reports nothing else as undefined"},
        "C15.detect.reserved_and_start": {"props": ["C15"], "text":
            "every task named like an engine command is reported; a definition whose tasks all have inbound transitions is reported as having no start task"},
        "C15.accepted_composes": {"props": ["C15"], "text":
            "a definition inspection accepts composes without an internal error"},
        "C19.inspect.deterministic_order": {"props": ["C19"], "text":
            "the undefined-task report lists its entries in definition order (position, then order of names as written), independent of hashing"},
    }
    assumptions = [
        "BOUNDED: generated definitions with 2-4 tasks, <= 2 transitions per task, <= 2 names per `do`, all documented notations; family size 150 (quick) / 1500 (thorough) per obligation, seeded by VERIF_SEED",
        "native execution of the real functions compared with the spec functions of this module (differential); networkx, jsonschema, yaml trusted",
    ]
    trusted = ["CPython", "networkx", "jsonschema"]

    def splits(self, tier):
        return ["readers", "compose", "detect"]

    def run_split(self, ctx, split):
        n = 150 if ctx.tier == "quick" else 1500
        seed = ctx.seed

        def thunk(e):
            if split == "readers":
                for tasks in family(seed * 7 + 1, n, allow_undefined=True):
                    try:
                        ts = wf(tasks).tasks
                        ok = all(ts.get_next_tasks(t) == ref_next(tasks, t) for t in tasks) \
                            and all(ts.get_prev_tasks(t) == ref_prev(tasks, t) for t in tasks) \
                            and ts.get_start_tasks() == ref_start(tasks) \
                            and all(ts.is_join_task(t) == (tasks[t].get("join") is not None) for t in tasks) \
                            and all(ts.is_split_task(t) == (tasks[t].get("join") is None and len(ref_prev(tasks, t)) > 1) for t in tasks)
                    except Exception as ex:
                        ok = False
                        tasks = dict(tasks, __error=repr(ex))
                    ctx.oblige("C14.spec.next_prev_start", ok, None, {"definition": tasks})
            elif split == "compose":
                for extra in ({"labels": {200: "ok", 404: "missing", True: "yes"}}, {"n": [1, 1.5, None, {"k": False}]}, {}):
                    d0 = {"version": 1.0, "vars": [{"table": extra}] if extra else [],
                          "tasks": {"t1": {"action": "core.noop", "next": [{"publish": [{"t": extra}], "do": "t2"}]}, "t2": {"action": "core.noop"}}}
                    if not extra:
                        del d0["vars"]
                    try:
                        sp = native_specs.WorkflowSpec(d0)
                        ser = sp.serialize()
                        back = native_specs.WorkflowSpec.deserialize(ser)
                        ok = _typed_eq(back.spec, sp.spec) and _typed_eq(back.serialize(), ser)
                    except Exception as ex:
                        ok = False
                    ctx.oblige("C05.spec.roundtrip", ok, None, {"definition": repr(d0)[:300]})
                fam = family(seed * 7 + 2, n) + family(seed * 7 + 5, n // 3, allow_dup=True)
                for tasks in fam:
                    info = {"definition": tasks}
                    has_dup = any(isinstance(tr.get("do"), str) and len(norm_do(tr["do"])) != len(set(norm_do(tr["do"])))
                                  for td in tasks.values() for tr in td.get("next") or [])
                    try:
                        g = native_composer.WorkflowComposer.compose(wf(tasks))
                        nodes, edges, barriers, retries, roots = graph_view(g)
                        rn, re_, rb, rr, rroots = ref_graph(tasks)
                        ok = nodes == rn and sorted(map(str, edges)) == sorted(map(str, re_)) and barriers == rb \
                            and retries == rr and roots == rroots
                        info["got_edges"] = sorted(map(str, edges))
                        info["want_edges"] = sorted(map(str, re_))
                    except Exception as ex:
                        ok = False
                        info["error"] = repr(ex)
                        g = None
                    ctx.oblige("C14.compose.exact", ok, None, info)
                    if g is None:
                        continue
                    ser = json.dumps(g.serialize(), sort_keys=True)
                    keys = list(tasks)
                    perm = dict((k, tasks[k]) for k in reversed(keys))
                    g2 = native_composer.WorkflowComposer.compose(wf(perm))
                    ctx.oblige("C14.compose.order_independent",
                               json.dumps(g2.serialize(), sort_keys=True) == ser
                               and sorted(map(str, graph_view(g2)[1])) == sorted(map(str, graph_view(g)[1]))
                               and graph_view(g2)[0] == graph_view(g)[0] and graph_view(g2)[2:] == graph_view(g)[2:], None, info)
                    back = graphing.WorkflowGraph.deserialize(g.serialize())
                    e1 = sorted((s, d, k, json.dumps(a, sort_keys=True)) for s, d, k, a in g._graph.edges(keys=True, data=True))
                    e2 = sorted((s, d, k, json.dumps(a, sort_keys=True)) for s, d, k, a in back._graph.edges(keys=True, data=True))
                    ctx.oblige("C14.graph.roundtrip", json.dumps(back.serialize(), sort_keys=True) == ser and e1 == e2, None, info)
                    if has_dup:
                        continue      # a list `do` must have unique names: no long form to compare with
                    lf = longform(tasks)
                    g3 = native_composer.WorkflowComposer.compose(wf(lf))
                    same = json.dumps(g3.serialize(), sort_keys=True) == ser
                    try:
                        same = same and (wf(lf).inspect() == {}) == (wf(tasks).inspect() == {})
                    except Exception as ex:
                        same = False
                    ctx.oblige("C20.shorthand.same_graph", same, None, info)
            else:
                for tasks in family(seed * 7 + 3, n, allow_undefined=True, allow_reserved=True) + \
                        family(seed * 7 + 4, n // 2, allow_undefined=True, allow_ws=True):
                    info = {"definition": tasks}
                    spec = wf(tasks)
                    try:
                        rep = spec.inspect()
                    except Exception as ex:
                        ctx.oblige("C15.detect.undefined_complete", False, None, dict(info, error=repr(ex)))
                        continue
                    sem = rep.get("semantics", [])
                    undefined_msgs = [x["message"] for x in sem if "is not defined" in x["message"]]
                    # reference: reachable transitions to undefined names, in BFS/definition order
                    want = []
                    seen, queue_ = [], [t for t, _, _ in ref_start(tasks)]
                    queued = list(queue_)
                    while queue_:
                        t = queue_.pop(0)
                        seen.append(t)
                        for i, tr in enumerate((tasks.get(t) or {}).get("next") or []):
                            for name in norm_do(tr.get("do")):
                                if name in seen:
                                    continue
                                if name in tasks or name in COMMANDS:
                                    if name in tasks and name not in COMMANDS and name not in queued:
                                        queue_.append(name)
                                        queued.append(name)
                                else:
                                    want.append(("tasks.%s.next[%d].do" % (t, i), 'The task "%s" is not defined.' % name))
                    reserved = [t for t in tasks if t in COMMANDS]
                    got_res = [x["message"] for x in sem if "is reserved" in x["message"]]
                    if not reserved:
                        # the report is the definition-order list, stably sorted by its path (sort key of inspect)
                        want_sorted = [m for _, m in sorted(want, key=lambda x: x[0])]
                        ctx.oblige("C15.detect.undefined_complete", sorted(undefined_msgs) == sorted(want_sorted), None,
                                   dict(info, got=undefined_msgs, want=want_sorted))
                        ctx.oblige("C19.inspect.deterministic_order", undefined_msgs == want_sorted, None,
                                   dict(info, got=undefined_msgs, want=want_sorted))
                    no_start = bool(tasks) and not ref_start(tasks)
                    got_nostart = any("Unable to identify any tasks to start" in x["message"] for x in sem)
                    ctx.oblige("C15.detect.reserved_and_start", len(got_res) == len(reserved) and
                               (bool(reserved) or got_nostart == no_start), None, info)
                    if rep == {}:
                        try:
                            native_composer.WorkflowComposer.compose(spec)
                            ok = True
                        except Exception as ex:
                            ok = False
                            info = dict(info, error=repr(ex))
                        ctx.oblige("C15.accepted_composes", ok, None, info)
            ctx.canary()

        ctx.eng.explore(thunk)
        ctx.bounded.append({"unit": self.name, "bound": "%d generated definitions (seed %d), split %s" % (n, seed, split)})


class InspectSeedIndependence(Unit):
    bounded = True
    name = "D.inspect_seed_independence"
    functions = ["orquesta.specs.base.Spec.inspect", "orquesta.specs.native.v1.models.TaskMappingSpec.inspect_context",
                 "orquesta.specs.native.v1.models.TaskMappingSpec.detect_unreachable_tasks"]
    obligations = {
        "C19.inspect.seed_independent": {"props": ["C19"], "text":
            "inspection of a definition whose branches accumulate the same context variables in different orders, with errors downstream, yields the identical report (and the composer the identical graph) in interpreters started with different hash seeds; so does the evaluation of expressions, the key and item views of a dict included (which must come back as JSON lists)"},
    }
    assumptions = ["BOUNDED: 3 definitions x 8 hash seeds, each in a fresh interpreter (cross-process replay: the functions use set iteration in ways the engine does not interpret - a stand-in, not a proof)"]
    trusted = ["CPython"]

    def run_split(self, ctx, split):
        import os, subprocess, sys
        import orquesta
        root = os.path.dirname(os.path.dirname(os.path.abspath(orquesta.__file__)))
        names = ["alpha", "bravo", "charlie", "delta", "echo", "foxtrot", "golf", "hotel"]
        pub1 = [{n: 1} for n in names]
        pub2 = [{n: 2} for n in reversed(names)]
        defs = [
            {"version": 1.0, "tasks": {
                "t1": {"action": "core.noop", "next": [{"publish": pub1, "do": "t3"}]},
                "t2": {"action": "core.noop", "next": [{"publish": pub2, "do": "t3"}]},
                "t3": {"action": "core.echo message=<% ctx().missing %>", "next": [{"do": "t4"}]},
                "t4": {"action": "core.echo message=<% ctx().gone %> {{ ctx().gone }}"}}},
            {"version": 1.0, "tasks": {
                "a": {"action": "core.noop", "next": [{"do": "b, c, zz, yy"}]},
                "b": {"action": "core.noop", "next": [{"do": "d"}]}, "c": {"action": "core.noop", "next": [{"do": "d"}]},
                "d": {"join": "all", "action": "core.echo message=<% ctx().u1 %> <% ctx().u2 %>"}}},
            {"version": 1.0, "vars": [{"v": "<% ctx().w1 %> {{ ctx().w1 }} <% ctx().w2 %>"}],
             "tasks": {"t1": {"action": "core.noop"}}},
            {"version": 1.0, "tasks": {"t1": {"with": {"items": "x y z <% ctx(xs) %> oops"}, "action": "core.noop"}}},
        ]
        prog = ("import sys, json\nsys.path.insert(0, %r)\nfrom orquesta.specs import native as specs\n"
                "from orquesta.composers import native as comp\nd = json.loads(sys.stdin.read())\ns = specs.WorkflowSpec(d)\n"
                "rep = s.inspect()\ntry:\n    g = json.dumps(comp.WorkflowComposer.compose(s).serialize(), sort_keys=True)\n"
                "except Exception as e:\n    g = repr(e)\n"
                "from orquesta.expressions import base as eb\n"
                "try:\n    ev = eb.evaluate('{{ ctx().a }} and <%% ctx().b %%>', {'a': 1, 'b': 2})\nexcept Exception as e:\n    ev = repr(e)\n"
                "try:\n    ev2 = eb.evaluate('<%% ctx().m1 %%> <%% ctx().m2 %%>', {'a': 1})\nexcept Exception as e:\n    ev2 = str(e)\n"
                "inv = {'inventory': {'web1': 1, 'db7': 2, 'cache3': 3, 'app': 4, 'queue9': 5, 'lb': 6}}\n"
                "try:\n    ev3 = [eb.evaluate('<%% ctx().inventory.keys() %%>', inv), eb.evaluate('<%% ctx().inventory.items().select($[0]) %%>', inv)]\n"
                "except Exception as e:\n    ev3 = str(e)\n"
                "print(json.dumps([rep, g, ev, ev2, ev3], sort_keys=True))\n" % root)

        def thunk(e):
            for k, d in enumerate(defs):
                outs = set()
                for seed in range(8):
                    env = dict(os.environ, PYTHONHASHSEED=str(seed))
                    r = subprocess.run([sys.executable, "-c", prog], input=json.dumps(d), env=env, capture_output=True, text=True)
                    outs.add(r.stdout.strip() or ("ERR:" + r.stderr[-200:]))
                ctx.oblige("C19.inspect.seed_independent", len(outs) == 1 and not any(o.startswith("ERR:") for o in outs), None,
                           {"definition": k, "distinct_outputs_over_8_seeds": len(outs)})
            ctx.canary()

        ctx.eng.explore(thunk)
        ctx.bounded.append({"unit": self.name, "bound": "3 definitions x 8 seeds"})


# ================================================================================================
# composer: one arbitrary task with one arbitrary transition (proof over opaque names/conditions)
# ================================================================================================
class ComposeGenericTransition(Unit):
    name = "D.compose_generic_transition"
    functions = ["orquesta.composers.native.WorkflowComposer._compose_wf_graph"]
    obligations = {
        "C14.compose.transition_exact": {"props": ["C14", "C13"], "text":
            "for an arbitrary task and an arbitrary transition (target, condition, position) of it, with the graph in an arbitrary state: the composer looks the edge up with exactly (task, target, criteria=[condition] or [], ref=position); adds exactly one edge with those attributes iff none exists, otherwise updates that edge; a `retry` target adds no edge and no node but sets the retry policy {when: condition or completed(), count: 3}; a declared join sets the barrier ('*' for all, else the number, 0 included); a retry spec sets {when, count, delay}"},
    }
    assumptions = [
        "the graph wrapper and the spec are abstract (contract stubs); names, conditions and positions are opaque values",
        "loop summary: one arbitrary worklist item and one arbitrary transition; that the worklist reaches every reachable task (completeness) and terminates is NOT proved here (bounded differential check C14.compose.exact)",
    ]
    trusted = ["pyvc interpreter"]

    def splits(self, tier):
        return [(tgt, join, retry) for tgt in ("task", "retry") for join in (None, "all", 2, 0) for retry in (False, True)]

    def run_split(self, ctx, split):
        tgt_kind, join, has_retry = split
        from pyvc.engine import AbstractObj, Stub, Raised
        from pyvc import sym as S2
        import z3 as _z3

        def thunk(e):
            calls = []
            T = "TASK"
            target = "retry" if tgt_kind == "retry" else "TARGET"
            cond_present = e.branch(S2.mk_bool("condition_present").z)
            condition = "COND" if cond_present else None
            idx = "IDX"
            exists = e.register_input("edge_exists", S2.mk_bool("edge_exists"))
            has_task = e.register_input("target_in_graph", S2.mk_bool("target_in_graph"))
            in_cycle_t = e.register_input("target_in_cycle", S2.mk_bool("target_in_cycle"))
            is_split = e.register_input("is_split", S2.mk_bool("is_split"))

            def rec(name):
                return Stub(name, lambda eng, *a, **k: calls.append((name, a, k)))

            def has_transition(eng, s_, d_, **kw):
                calls.append(("has_transition", (s_, d_), kw))
                return [(s_, d_, "KEY7", {})] if eng.branch(exists.z) else []

            graph = AbstractObj("wf_graph", add_task=rec("add_task"), set_barrier=rec("set_barrier"),
                                update_task=rec("update_task"), add_transition=rec("add_transition"),
                                update_transition=rec("update_transition"),
                                has_transition=Stub("has_transition", has_transition),
                                has_task=Stub("has_task", lambda eng, x: True if x == T else has_task))
            task_spec = AbstractObj("task_spec", join=join, has_retry=Stub("has_retry", lambda eng: has_retry),
                                    retry=AbstractObj("retry_spec", when="RW", count="RC", delay="RD"))
            leaf_spec = AbstractObj("leaf_spec", join=None, has_retry=Stub("has_retry", lambda eng: False))

            def get_next_tasks(eng, name):
                return [(target, condition, idx)] if name == T else []

            tasks = AbstractObj(
                "tasks", get_start_tasks=Stub("get_start_tasks", lambda eng: [(T, None, None)]),
                is_join_task=Stub("is_join_task", lambda eng, x: x == T and join is not None),
                is_split_task=Stub("is_split_task", lambda eng, x: is_split if x == T else False),
                in_cycle=Stub("in_cycle", lambda eng, x: in_cycle_t if x == target else False),
                get_task=Stub("get_task", lambda eng, x: task_spec if x == T else leaf_spec),
                get_next_tasks=Stub("get_next_tasks", get_next_tasks),
                __getitem__=Stub("getitem", lambda eng, x: task_spec if x == T else leaf_spec))
            wf_spec = object.__new__(native_specs.WorkflowSpec)
            object.__setattr__(wf_spec, "tasks", tasks) if False else wf_spec.__dict__.update({"tasks": tasks})
            e.overrides[graphing.WorkflowGraph] = lambda eng, *a, **k: graph
            g = e.call(native_composer.WorkflowComposer._compose_wf_graph, [wf_spec], {})
            info = {"target": tgt_kind, "join": join, "retry_spec": has_retry, "condition": cond_present}
            crta = ["COND"] if cond_present else []
            mine = [c for c in calls if c[0] in ("has_transition", "add_transition", "update_transition") and c[1][0] == T]
            ok = g is graph
            if tgt_kind == "retry":
                ok = ok and not mine and not [c for c in calls if c[0] == "add_task" and c[1][0] == "retry"]
                ok = ok and ("update_task", (T,), {"retry": {"when": "COND" if cond_present else "<% completed() %>", "count": 3}}) in calls
                claim = _z3.BoolVal(ok)
            else:
                lookups = [c for c in mine if c[0] == "has_transition"]
                adds = [c for c in mine if c[0] == "add_transition"]
                upds = [c for c in mine if c[0] == "update_transition"]
                ok = ok and len(lookups) == 1 and lookups[0][1] == (T, target) and lookups[0][2] == {"criteria": crta, "ref": idx}
                added = len(adds) == 1 and not upds and adds[0][1] == (T, target) and adds[0][2] == {"criteria": crta, "ref": idx}
                updated = len(upds) == 1 and not adds and upds[0][1] == (T, target) and upds[0][2] == {"key": "KEY7", "criteria": crta, "ref": idx}
                claim = _z3.And(_z3.BoolVal(ok), _z3.If(exists.z, _z3.BoolVal(updated), _z3.BoolVal(added)))
            if join is not None:
                claim = _z3.And(claim, _z3.BoolVal(("set_barrier", (T,), {"value": "*" if join == "all" else join}) in calls))
            else:
                claim = _z3.And(claim, _z3.BoolVal(not [c for c in calls if c[0] == "set_barrier"]))
            if has_retry:
                claim = _z3.And(claim, _z3.BoolVal(("update_task", (T,), {"retry": {"when": "RW", "count": "RC", "delay": "RD"}}) in calls))
            ctx.oblige("C14.compose.transition_exact", claim, None, info)
            ctx.canary()

        ctx.eng.explore(thunk)


# ================================================================================================
# the WorkflowGraph wrapper against a reference multigraph (the contracts the conductor units assume)
# ================================================================================================
class GraphWrapper(Unit):
    bounded = True
    name = "D.graph_wrapper"
    functions = ["orquesta.graphing.WorkflowGraph.add_task", "orquesta.graphing.WorkflowGraph.update_task",
                 "orquesta.graphing.WorkflowGraph.add_transition", "orquesta.graphing.WorkflowGraph.update_transition",
                 "orquesta.graphing.WorkflowGraph.has_transition", "orquesta.graphing.WorkflowGraph.get_transition",
                 "orquesta.graphing.WorkflowGraph.get_next_transitions", "orquesta.graphing.WorkflowGraph.get_prev_transitions",
                 "orquesta.graphing.WorkflowGraph.get_task", "orquesta.graphing.WorkflowGraph.has_barrier",
                 "orquesta.graphing.WorkflowGraph.get_barriers", "orquesta.graphing.WorkflowGraph.task_has_retry",
                 "orquesta.graphing.WorkflowGraph.get_task_retry_spec", "orquesta.graphing.WorkflowGraph.roots",
                 "orquesta.graphing.WorkflowGraph.serialize", "orquesta.graphing.WorkflowGraph.deserialize"]
    obligations = {
        "C14.graph.wrapper_contracts": {"props": ["C14", "C05", "C07", "C13", "C01"], "text":
            "the WorkflowGraph wrapper behaves as the multigraph view the conductor contracts assume: transitions are (source, target, key, attributes) with one key per parallel edge, next/prev transitions are complete and sorted by target/source name, has_transition filters on all given attributes, node queries return fresh copies, barrier/retry attributes are exactly what was set, roots are the nodes without inbound edges sorted by id, and all of this survives serialize/deserialize"},
    }
    assumptions = ["BOUNDED: random operation sequences on <= 5 nodes, <= 8 edges (150 quick / 1500 thorough graphs, seeded); networkx external",
                   "graphs are built the way the composer builds them: one condition per (task, transition position). (has_transition / get_transition apply only the LAST keyword filter because their lambdas capture the loop variables late; with one condition per position this cannot be observed, so it breaks no listed property and is recorded as an observation only.)"]
    trusted = ["CPython", "networkx"]

    def run_split(self, ctx, split):
        n = 150 if ctx.tier == "quick" else 1500
        rng = random.Random(ctx.seed * 13 + 7)

        def thunk(e):
            for _ in range(n):
                g = graphing.WorkflowGraph()
                nodes, edges = {}, []     # reference: nodes -> attrs ; edges: [src, dst, key, attrs]
                names = ["n%d" % i for i in range(rng.choice([2, 3, 4, 5]))]
                ops = []
                # as in composed graphs, a transition position (ref) of a task has one condition
                crit_of = {(nm, r): rng.choice([[], ["<% succeeded() %>"], ["<% failed() %>"]]) for nm in names for r in (0, 1, 2)}
                for _ in range(rng.choice([3, 5, 8])):
                    s_, d_ = rng.choice(names), rng.choice(names)
                    ref = rng.choice([0, 1, 2])
                    crit = crit_of[(s_, ref)]
                    existing = [x for x in edges if x[0] == s_ and x[1] == d_ and x[3].get("criteria") == crit and x[3].get("ref") == ref]
                    ops.append(("edge", s_, d_, crit, ref))
                    if g.has_transition(s_, d_, criteria=crit, ref=ref):
                        if not existing:
                            ctx.oblige("C14.graph.wrapper_contracts", False, None, {"ops": ops, "why": "has_transition found a non-existing edge"})
                        continue
                    if existing:
                        ctx.oblige("C14.graph.wrapper_contracts", False, None, {"ops": ops, "why": "has_transition missed an existing edge"})
                        continue
                    g.add_transition(s_, d_, criteria=crit, ref=ref)
                    key = len([x for x in edges if x[0] == s_ and x[1] == d_])
                    edges.append([s_, d_, key, {"criteria": crit, "ref": ref}])
                    nodes.setdefault(s_, {})
                    nodes.setdefault(d_, {})
                for name in names:
                    if rng.random() < 0.3:
                        val = rng.choice(["*", 1, 2])
                        g.add_task(name)
                        g.set_barrier(name, value=val)
                        nodes.setdefault(name, {})["barrier"] = val
                    if rng.random() < 0.2:
                        r = {"when": None, "count": 2, "delay": 1}
                        g.add_task(name, retry=r)
                        nodes.setdefault(name, {})["retry"] = {"when": None, "count": 2, "delay": 1}
                info = {"nodes": dict(nodes), "edges": list(map(list, edges))}
                for gg in (g, graphing.WorkflowGraph.deserialize(json.loads(json.dumps(g.serialize())))):
                    ok = True
                    for name in nodes:
                        nt = gg.get_next_transitions(name)
                        want = sorted([x for x in edges if x[0] == name], key=lambda x: x[1])
                        ok = ok and sorted((a, b, k, json.dumps(at, sort_keys=True)) for a, b, k, at in nt) == \
                            sorted((a, b, k, json.dumps(at, sort_keys=True)) for a, b, k, at in want)
                        ok = ok and [x[1] for x in nt] == sorted(x[1] for x in nt)
                        pt = gg.get_prev_transitions(name)
                        wantp = [x for x in edges if x[1] == name]
                        ok = ok and sorted((a, b, k) for a, b, k, at in pt) == sorted((a, b, k) for a, b, k, at in wantp)
                        # ... in one order, whether the graph was composed or restored (by source and key)
                        ok = ok and [(a, k) for a, b, k, at in pt] == sorted((a, k) for a, b, k, at in pt)
                        t1, t2 = gg.get_task(name), gg.get_task(name)
                        ok = ok and t1 == dict({"id": name}, **nodes[name]) and t1 is not t2
                        if "retry" in nodes[name]:
                            ok = ok and t1["retry"] is not t2["retry"] and gg.task_has_retry(name) \
                                and gg.get_task_retry_spec(name) == nodes[name]["retry"]
                        else:
                            ok = ok and not gg.task_has_retry(name)
                        ok = ok and gg.has_barrier(name) == ("barrier" in nodes[name]) and gg.get_barrier(name) == nodes[name].get("barrier")
                    ok = ok and set(gg.get_barriers()) == {k for k, v in nodes.items() if v.get("barrier")}
                    roots = sorted(k for k in nodes if not any(x[1] == k for x in edges))
                    ok = ok and [r["id"] for r in gg.roots] == roots
                    for s_, d_, key, at in edges:
                        tr = gg.get_transition(s_, d_, key=key)
                        ok = ok and tr[2] == key and tr[3] == at
                    ctx.oblige("C14.graph.wrapper_contracts", ok, None, info)
            ctx.canary()

        ctx.eng.explore(thunk)
        ctx.bounded.append({"unit": self.name, "bound": "%d random graphs" % n})
