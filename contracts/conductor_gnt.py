"""Layer C: WorkflowConductor.get_next_tasks — guard, remediation, rendering errors, retry delay,
order, purity.  Ground companion over n <= 2 staged entries with every leaf
symbolic; labelled *bounded* in the evidence (the loop over staged tasks is unrolled)."""
import z3

from orquesta import conducting
from contracts import specconst as st

from pyvc import sym as S
from pyvc.engine import AbstractObj, Raised, Stub
from pyvc.framework import Unit
from pyvc.spec import AND, OR, NOT, IMPLIES, IFF, EQ, NE, IN, NOTIN
from pyvc.sym import OptField

from . import cbase

WF_STATUSES = [st.UNSET, st.REQUESTED, st.SCHEDULED, st.DELAYED, st.RUNNING, st.PAUSING, st.PAUSED,
               st.RESUMING, st.CANCELING, st.CANCELED, st.SUCCEEDED, st.FAILED]
# the statuses in which the conductor may offer work, taken from the property statements
# (C03/C04/C09/C10): running statuses of a workflow; NOT from the code's own list
OFFERING = [st.REQUESTED, st.SCHEDULED, st.DELAYED, st.RUNNING, st.RESUMING, st.RETRYING]


def zb(x):
    return x if not isinstance(x, bool) else z3.BoolVal(x)


def entry_ready(ent):
    """z3: entry is in Ready(sigma): ready and not completed."""
    comp = ent["completed"]
    completed = z3.And(zb(comp.present), comp.value.z) if isinstance(comp, OptField) else z3.BoolVal(False)
    return z3.And(ent["ready"].z, z3.Not(completed))


def entry_rof(ent):
    rof = ent["run_on_fail"]
    return z3.And(zb(rof.present), rof.value.z) if isinstance(rof, OptField) else z3.BoolVal(False)


class GetNextTasks(Unit):
    bounded = True
    name = "C.get_next_tasks"
    functions = [
        "orquesta.conducting.WorkflowConductor.get_next_tasks",
        "orquesta.conducting.WorkflowState.get_staged_tasks",
        "orquesta.conducting.WorkflowConductor.get_workflow_status",
    ]
    obligations = {
        "C04.gnt.guard": {"props": ["C04", "C09", "C10", "C03", "C02", "C12"], "text":
            "workflow not in a running status and no ready run-on-fail entry on a failed workflow => returns [] and touches nothing (no rendering, no log, no status request)"},
        "C04.gnt.remediation_only": {"props": ["C04", "C01"], "text":
            "on a failed workflow only ready run_on_fail entries are offered"},
        "C01.gnt.only_ready": {"props": ["C01", "C03", "C12"], "text":
            "every offered task is a ready, not completed staged entry with that id and route"},
        "C13.gnt.delay": {"props": ["C13"], "text":
            "an entry carrying retry is offered with delay = retry.delay or 0"},
        "C11.gnt.contained": {"props": ["C11"], "text":
            "a rendering exception never escapes: it is logged with the task id and route, failed is requested and nothing is offered"},
        "C04.gnt.failed_returns_nothing": {"props": ["C04", "C11"], "text":
            "a call that itself fails the workflow (rendering error) offers nothing: status failed at exit and not at entry => returns []"},
        "C19.gnt.sorted": {"props": ["C19", "C08"], "text":
            "offered tasks are sorted by (id, route)"},
        "C03.gnt.progress": {"props": ["C03", "C01"], "text":
            "in a running status every ready entry whose rendering yields actions (or zero items) is offered"},
        "C19.gnt.frame": {"props": ["C19", "C18"], "text":
            "get_next_tasks does not modify staged entries, status, errors (other than through the rendering-error path and the items initialisation of _evaluate_task_actions)"},
    }
    assumptions = [
        "BOUNDED: loop over staged entries unrolled for n <= 2 entries; ids over a 3-letter alphabet, routes 0..1; all flags and optional keys symbolic",
        "get_task: assumed contract 'may raise any Exception, else returns a task dict with the requested id/route' (weakest for C11)",
        "_evaluate_task_actions: its own contract (C12.eta.*) is used at the call: returns the same task with actions replaced by an order-preserving prefix selection",
        "log_error / request_workflow_status: recorded as ghost calls; request_workflow_status(failed) sets status to failed unless canceled (C02.pwe.fail_request)",
    ]
    trusted = ["z3 5.1", "pyvc interpreter"]

    def splits(self, tier):
        # n = 3 entries with every leaf symbolic does not terminate in hours (the unbounded unit below
        # covers every length for the guard and for one generic iteration)
        return [(s, n) for s in WF_STATUSES for n in (0, 1, 2)]

    def run_split(self, ctx, split):
        status_c, n = split
        first = [True]

        def thunk(e):
            e.register_input("status", status_c)
            e.register_input("n", n)
            staged = []
            for k in range(n):
                ent = cbase.staged_entry(e, k)
                ent["retry"] = cbase.opt(e, "retry%d" % k, {"delay": cbase.opt(e, "delay%d" % k, S.mk_int("delayv%d" % k)),
                                                           "count": 3, "tally": 1, "when": None})
                ent["__k"] = k
                staged.append(ent)
            e.register_input("staged", staged)
            snap = cbase.snapshot(staged)
            c, ws = cbase.new_conductor(status_c, staged=staged)
            log = cbase.CallLog()
            raised_for = {}

            def get_task(eng, self_, task_id, route):
                # identify the entry this call is for by identity of the symbolic leaves
                k = next(i for i, en in enumerate(staged) if en["id"] is task_id and en["route"] is route)
                log.add("get_task", k)
                r = S.mk_bool("render_raises%d" % k)
                eng.register_input("render_raises%d" % k, r)
                if eng.branch(r.z):
                    raised_for[k] = "get_task"
                    raise Raised(Exception, ("render error",))
                has_items = eng.branch(eng.register_input("has_items%d" % k, S.mk_bool("has_items%d" % k)).z)
                if has_items:
                    cnt = eng.choose(3)
                    actions = [{"action": "a", "item_id": i} for i in range(cnt)]
                else:
                    actions = [{"action": "a"}]
                spec = AbstractObj("task_spec%d" % k, has_items=Stub("has_items", lambda en: has_items))
                task = {"id": task_id, "route": route, "ctx": {}, "spec": spec, "actions": actions,
                        "__k": k, "__has_items": has_items}
                if has_items:
                    task["items_count"] = cnt
                    task["concurrency"] = None
                dl = S.mk_int("specdelay%d" % k)
                task["delay"] = cbase.opt(eng, "specdelay%d" % k, dl)
                return task

            def eta(eng, self_, task):
                k = task["__k"]
                log.add("eta", k)
                r = S.mk_bool("eta_raises%d" % k)
                eng.register_input("eta_raises%d" % k, r)
                if eng.branch(r.z):
                    raised_for[k] = "eta"
                    raise Raised(KeyError, ("items",))
                if task["__has_items"]:
                    m = eng.choose(len(task["actions"]) + 1)
                    task["actions"] = task["actions"][:m]
                log.add("eta_result", k, len(task["actions"]), task.get("items_count"))
                return task

            def log_error(eng, self_, err, task_id=None, route=None, task_transition_id=None):
                log.add("log_error", err, task_id=task_id, route=route)

            def rws(eng, self_, status):
                log.add("request_workflow_status", status)
                if status == st.FAILED and ws.status != st.CANCELED:
                    ws.status = st.FAILED

            e.overrides[conducting.WorkflowConductor.get_task] = get_task
            e.overrides[conducting.WorkflowConductor._evaluate_task_actions] = eta
            e.overrides[conducting.WorkflowConductor.log_error] = log_error
            e.overrides[conducting.WorkflowConductor.request_workflow_status] = rws

            raised = None
            result = None
            try:
                result = e.call(conducting.WorkflowConductor.get_next_tasks, [c], {})
            except Raised as r:
                raised = r
            if first[0]:
                ctx.canary()
                first[0] = False
            info = {"status": status_c, "n": n}

            ready = [entry_ready(en) for en in staged]
            rof = [entry_rof(en) for en in staged]
            any_rof_ready = z3.Or([z3.And(a, b) for a, b in zip(ready, rof)]) if staged else z3.BoolVal(False)
            offering = status_c in OFFERING
            res = result if result is not None else []

            # C11: containment
            ok = raised is None
            if raised_for:
                ok = ok and res == [] and len(log.named("request_workflow_status")) == 1 \
                    and log.named("request_workflow_status")[0][1] == (st.FAILED,)
                for k in raised_for:
                    ok = ok and any(c_[2].get("task_id") is staged[k]["id"] and c_[2].get("route") is staged[k]["route"]
                                    for c_ in log.named("log_error"))
            ctx.oblige("C11.gnt.contained", ok, None, info)
            if raised is not None:
                return

            ctx.oblige("C04.gnt.failed_returns_nothing",
                       not (ws.status == st.FAILED and status_c != st.FAILED) or res == [], None, info)
            # C04 guard
            guard_closed = z3.And(z3.BoolVal(not offering),
                                  z3.Not(z3.And(z3.BoolVal(status_c == st.FAILED), any_rof_ready)))
            untouched = (res == [] and not log.calls)
            ctx.oblige("C04.gnt.guard", z3.Implies(guard_closed, z3.BoolVal(untouched)), None, info)

            # per offered task
            for t in res:
                k = t["__k"]
                ctx.oblige("C01.gnt.only_ready", ready[k], None, info)
                if status_c == st.FAILED:
                    ctx.oblige("C04.gnt.remediation_only", z3.And(ready[k], rof[k]), None, info)
                ent = staged[k]
                rt = snap[k]["retry"]
                if "delay" in t:
                    dv = t["delay"]
                    if isinstance(dv, OptField):
                        has_delay, dval = zb(dv.present), dv.value
                    else:
                        has_delay, dval = z3.BoolVal(True), dv
                else:
                    has_delay, dval = z3.BoolVal(False), 0
                dz = dval.z if isinstance(dval, S.SInt) else z3.IntVal(dval)
                rd = rt.value["delay"]
                want = z3.If(z3.And(zb(rd.present), rd.value.z != 0), rd.value.z, 0)
                ctx.oblige("C13.gnt.delay", z3.Implies(zb(rt.present), z3.And(has_delay, dz == want)), None, info)
            if status_c != st.FAILED and not res:
                ctx.oblige("C04.gnt.remediation_only", True, None, info)
            if not res:
                ctx.oblige("C01.gnt.only_ready", True, None, info)
                ctx.oblige("C13.gnt.delay", True, None, info)

            # sortedness
            srt = True
            for a, b in zip(res, res[1:]):
                ia, ib = a["id"], b["id"]
                lt_id = e.path_lt_const(ia, ib)
                eq_id = e.zbool_of(e.sym_eq(ia, ib))
                srt = z3.And(zb(srt), z3.Or(lt_id, z3.And(eq_id, a["route"].z <= b["route"].z)))
            ctx.oblige("C19.gnt.sorted", srt, None, info)

            # progress
            if offering and not raised_for:
                offered_k = {t["__k"] for t in res}
                rendered = {c_[1][0] for c_ in log.named("eta")}
                for k in range(n):
                    # a ready entry must have been rendered; if rendering yielded work it must be offered
                    ctx.oblige("C03.gnt.progress", z3.Implies(ready[k], z3.BoolVal(k in rendered)), None, info)
                for c_ in log.named("eta_result"):
                    k, nact, icount = c_[1]
                    if nact > 0 or icount == 0:
                        ctx.oblige("C03.gnt.progress", z3.BoolVal(k in offered_k), None, info)
            else:
                ctx.oblige("C03.gnt.progress", True, None, info)

            # frame
            same = cbase.same_structure(e, snap, staged)
            st_ok = (ws.status == status_c) or bool(raised_for)
            ctx.oblige("C19.gnt.frame", z3.And(zb(same), z3.BoolVal(st_ok), z3.BoolVal(
                bool(raised_for) or not log.named("log_error"))), None, info)

        ctx.eng.explore(thunk)
        ctx.bounded.append({"unit": self.name, "bound": "n_staged=%d" % n, "status": status_c})


# ================================================================================================
# get_next_tasks for a staged list of UNBOUNDED length: guard + one generic loop iteration + suffix
# ================================================================================================
from pyvc import seqlib
from pyvc.sym import SBool, SConst, SInt, SList, INTERN


def fresh_staged_list(e):
    """staged entries of arbitrary number; every field symbolic"""
    I = z3.IntSort()
    f = {n: z3.Function(S.fresh_name("stg_" + n), I, srt) for n, srt in [
        ("id", I), ("route", I), ("ready", z3.BoolSort()), ("has_completed", z3.BoolSort()), ("completed", z3.BoolSort()),
        ("has_rof", z3.BoolSort()), ("rof", z3.BoolSort()), ("has_retry", z3.BoolSort()), ("has_delay", z3.BoolSort()),
        ("delay", I), ("has_items", z3.BoolSort())]}
    m = z3.Int(S.fresh_name("n_staged"))
    e.assume(m >= 0)

    def get(j):
        j = seqlib.zidx(j)
        return {"id": SConst(f["id"](j)), "route": SInt(f["route"](j)), "ready": SBool(f["ready"](j)),
                "completed": OptField(f["has_completed"](j), SBool(f["completed"](j))),
                "run_on_fail": OptField(f["has_rof"](j), SBool(f["rof"](j))),
                "retry": OptField(f["has_retry"](j), {"delay": OptField(f["has_delay"](j), SInt(f["delay"](j))), "count": 1}),
                # a with-items task keeps its item records in the staged entry from its first evaluation on
                "items": OptField(f["has_items"](j), AbstractObj("item records of the staged entry")),
                "__idx": SInt(j)}
    return SList(m, get, "staged"), f, m


class GetNextTasksUnbounded(Unit):
    name = "C.get_next_tasks.unbounded"
    functions = ["orquesta.conducting.WorkflowConductor.get_next_tasks", "orquesta.conducting.WorkflowState.get_staged_tasks"]
    obligations = {
        "C04.gnt.guard_any_state": {"props": ["C04", "C09", "C10", "C03", "C02", "C12"], "text":
            "for a staged list of any length: outside the running statuses, and unless the workflow is failed with a ready run-on-fail entry, get_next_tasks returns [] without rendering, logging or requesting anything"},
        "C01.gnt.offer_justified": {"props": ["C01", "C04", "C12", "C13"], "text":
            "for a staged list of any length, in an arbitrary loop iteration: whatever is appended to the offers is the rendering of a staged entry that is ready and not completed (and run_on_fail when the workflow is failed), carries that entry's id and route, and its delay is the entry's retry delay (or 0) when it carries a retry - whether or not the entry already holds item records (a with-items task is re-offered with the retry delay on every query, not only the first)"},
        "C11.gnt.iteration_contained": {"props": ["C11"], "text":
            "in an arbitrary loop iteration a rendering exception is caught, logged with the entry's id and route, and marks the call as failed; after the loop a marked call requests failed and returns []"},
        "C19.gnt.sorted_any": {"props": ["C19"], "text":
            "on normal completion the result is sorted(offers, key=(id, route)) of the accumulated offers"},
    }
    assumptions = [
        "loop summary: the loop body is verified for one arbitrary element of the iterated list from an arbitrary accumulator state; offers are only appended and the failure flag only set (shown per iteration) - the lift to all iterations is this monotonicity argument, not re-proved by the solver",
        "get_task / _evaluate_task_actions: assumed contracts (may raise anything; return a task dict for the requested id/route)",
        "sequence axioms (filter) of DESIGN Appendix A",
    ]
    trusted = ["z3 5.1 (quantified VCs)", "pyvc sequence library"]
    timeout_ms = 20000

    def splits(self, tier):
        return list(WF_STATUSES)

    def run_split(self, ctx, split):
        status_c = split
        first = [True]

        def thunk(e):
            e.register_input("status", status_c)
            staged, f, m = fresh_staged_list(e)
            c, ws = cbase.new_conductor(status_c, staged=staged)
            log = cbase.CallLog()
            state = {"iter": None}

            def get_task(eng, self_, task_id, route):
                log.add("get_task", task_id, route)
                if eng.branch(S.mk_bool("render_raises").z):
                    raise Raised(Exception, ("render error",))
                return {"id": task_id, "route": route, "ctx": {}, "actions": [{"a": 1}],
                        "spec": AbstractObj("ts", has_items=Stub("has_items", lambda en: False)),
                        "delay": cbase.opt(eng, "specdelay", S.mk_int("specdelay"))}

            def eta(eng, self_, task):
                log.add("eta", task)
                if eng.branch(S.mk_bool("eta_raises").z):
                    raise Raised(KeyError, ("items",))
                k = eng.choose(3)
                if k == 1:
                    task["actions"] = []
                elif k == 2:
                    task["actions"] = []
                    task["items_count"] = 0
                return task

            def log_error(eng, self_, err, task_id=None, route=None, task_transition_id=None):
                log.add("log_error", err, task_id=task_id, route=route)

            def rws(eng, self_, status):
                log.add("rws", status)

            e.overrides[conducting.WorkflowConductor.get_task] = get_task
            e.overrides[conducting.WorkflowConductor._evaluate_task_actions] = eta
            e.overrides[conducting.WorkflowConductor.log_error] = log_error
            e.overrides[conducting.WorkflowConductor.request_workflow_status] = rws

            def loop(en, st_, env):
                import ast as _ast
                from pyvc.engine import _Continue
                xs = en.eval(st_.iter, env)
                if not isinstance(xs, SList):
                    raise S.Unsupported("expected a symbolic list of staged entries")
                state["xs"] = xs
                # the loop-carried locals are found in the loop body itself, not by name:
                # lists the body appends to (accumulators) and names it assigns the constant True (flags)
                accs = sorted({n.func.value.id for n in _ast.walk(st_) if isinstance(n, _ast.Call)
                               and isinstance(n.func, _ast.Attribute) and n.func.attr == "append"
                               and isinstance(n.func.value, _ast.Name)})
                flags = sorted({t.id for n in _ast.walk(st_) if isinstance(n, _ast.Assign)
                                and isinstance(n.value, _ast.Constant) and n.value.value is True
                                for t in n.targets if isinstance(t, _ast.Name)})
                if len(accs) != 1 or len(flags) != 1:
                    raise S.Unsupported("loop of get_next_tasks: expected one accumulator list and one failure flag, found %s / %s" % (accs, flags))
                acc_name, flag_name = accs[0], flags[0]
                state["names"] = (acc_name, flag_name)
                if en.branch(xs.length > 0):
                    i = z3.Int(S.fresh_name("iter"))
                    en.assume(z3.And(0 <= i, i < xs.length))
                    elem = xs.get(i)
                    acc = env.lookup(acc_name)
                    if acc != [] or env.lookup(flag_name) is not False:
                        raise S.Unsupported("loop-carried locals are not in their initial state at loop entry")
                    state["iter"] = {"elem": elem, "acc_before": list(acc), "log_before": len(log.calls)}
                    en.assign(st_.target, elem, env)
                    try:
                        en.exec_block(st_.body, env)
                    except _Continue:
                        pass
                    state["iter"]["acc_after"] = list(env.lookup(acc_name))
                    state["iter"]["flag_after"] = env.lookup(flag_name)
                    state["iter"]["calls"] = log.calls[state["iter"]["log_before"]:]
                # arbitrary accumulator after all iterations
                flag = S.mk_bool("any_iteration_failed")
                mine = state["iter"] and state["iter"]["flag_after"]
                if mine is True:
                    en.assume(flag.z)
                env.locals[flag_name] = flag
                env.locals[acc_name] = "ACCUMULATED_OFFERS"

            e.loop_handlers["WorkflowConductor.get_next_tasks:loop#0"] = loop
            sorted_calls = []

            def m_sorted(en, args, kwargs, anysym):
                if args and args[0] == "ACCUMULATED_OFFERS":
                    sorted_calls.append(kwargs.get("key"))
                    return "SORTED_OFFERS"
                return orig_sorted(en, args, kwargs, anysym)
            orig_sorted = seqlib.BUILTIN_MODELS[sorted]
            seqlib.BUILTIN_MODELS[sorted] = m_sorted
            raised = None
            try:
                res = e.call(conducting.WorkflowConductor.get_next_tasks, [c], {})
            except Raised as r:
                raised = r
            finally:
                seqlib.BUILTIN_MODELS[sorted] = orig_sorted
            if first[0]:
                ctx.canary()
                first[0] = False
            info = {"status": status_c, "entered_loop": state.get("xs") is not None}
            if raised is not None:
                ctx.oblige("C11.gnt.iteration_contained", False, None, dict(info, raised=repr(raised)))
                return
            offering = status_c in OFFERING
            j = z3.Int(S.fresh_name("gj"))
            rdy = lambda q: z3.And(f["ready"](q), z3.Not(z3.And(f["has_completed"](q), f["completed"](q))))
            rofq = lambda q: z3.And(f["has_rof"](q), f["rof"](q))
            any_rof_ready = z3.Exists([j], z3.And(0 <= j, j < m, rdy(j), rofq(j)))
            closed = z3.And(z3.BoolVal(not offering), z3.Not(z3.And(z3.BoolVal(status_c == st.FAILED), any_rof_ready)))
            untouched = (res == [] and not log.calls and state.get("xs") is None)
            ctx.oblige("C04.gnt.guard_any_state", z3.Implies(closed, z3.BoolVal(untouched)), None, info)
            it = state["iter"]
            if it is not None:
                elem = it["elem"]
                q = elem["__idx"].z
                new = [t for t in it["acc_after"] if t not in it["acc_before"]]
                just = z3.And(rdy(q), rofq(q) if status_c == st.FAILED else z3.BoolVal(True), 0 <= q, q < m)
                ok = len(new) <= 1
                cl = [z3.BoolVal(ok), z3.Implies(z3.BoolVal(bool(new)), just)]
                for t in new:
                    cl.append(z3.BoolVal(t["id"] is elem["id"] and t["route"] is elem["route"]))
                    has_retry = f["has_retry"](q)
                    dv = t.get("delay")
                    if isinstance(dv, OptField):
                        dz, present = dv.value.z, zb(dv.present)
                    elif dv is None:
                        dz, present = z3.IntVal(0), z3.BoolVal(False)
                    else:
                        dz, present = (dv.z if isinstance(dv, SInt) else z3.IntVal(dv)), z3.BoolVal(True)
                    want = z3.If(z3.And(f["has_delay"](q), f["delay"](q) != 0), f["delay"](q), 0)
                    cl.append(z3.Implies(has_retry, z3.And(present, dz == want)))
                ctx.oblige("C01.gnt.offer_justified", z3.And(cl), None, info)
                raised_in_iter = any(c_[0] == "log_error" for c_ in it["calls"])
                stub_raised = it["flag_after"] is True
                logged = [c_ for c_ in it["calls"] if c_[0] == "log_error" and c_[2].get("task_id") is elem["id"]
                          and c_[2].get("route") is elem["route"]]
                ctx.oblige("C11.gnt.iteration_contained", (stub_raised == raised_in_iter) and (not stub_raised or (len(logged) == 1 and not new)),
                           None, info)
            if state.get("xs") is not None:
                # suffix
                flag_calls = log.named("rws")
                if res == []:
                    ctx.oblige("C11.gnt.iteration_contained", flag_calls == [("rws", (st.FAILED,), {})], None, info)
                else:
                    ctx.oblige("C11.gnt.iteration_contained", not flag_calls, None, info)
                    ctx.oblige("C19.gnt.sorted_any", res == "SORTED_OFFERS" and len(sorted_calls) == 1, None, info)

        ctx.eng.explore(thunk)


# ================================================================================================
# get_task: what one offer is rendered from
# ================================================================================================
class GetTask(Unit):
    name = "C.get_task"
    functions = ["orquesta.conducting.WorkflowConductor.get_task"]
    obligations = {
        "C06.get_task.context": {"props": ["C06", "C01", "C16"], "text":
            "an offer is rendered with the task's initial context (the workflow's initial context when the task has none), plus __current_task = {id, route} and __state = the serialised state; the task spec rendered is a copy of the definition's spec for that task id; the offer carries that id, route, context, rendered spec and rendered actions"},
        "C12.get_task.items_meta": {"props": ["C12"], "text":
            "for a with-items task items_count is the number of rendered item actions and concurrency is the evaluated concurrency value of the spec whatever that value is (an absent one stays None; a literal 0 stays 0 and is not mistaken for an absent one); a plain task carries neither"},
        "C13.get_task.delay": {"props": ["C13", "C11"], "text":
            "a task delay, when given, is evaluated against the task context if it is a string, must then be an integer (TypeError otherwise) and is carried on the offer; no delay is carried when none is given"},
    }
    assumptions = [
        "get_task_initial_context, WorkflowState.serialize, set_current_task, merge_dicts, TaskSpec.copy / render, expr_base.evaluate: through their contracts (set_current_task / merge_dicts add the named key to a copy; evaluate returns a non-string unchanged and an arbitrary value for a string)",
        "all values (contexts, specs, actions, delay / concurrency values) are opaque or symbolic; no bound",
    ]
    trusted = ["z3 5.1", "pyvc interpreter"]

    def splits(self, tier):
        return [(has_items, delay, conc) for has_items in (False, True)
                for delay in ("none", "zero", "int", "str->int", "str->other", "other")
                for conc in (("none", "zero", "int", "str") if has_items else ("none",))]

    def run_split(self, ctx, split):
        has_items, delay_c, conc_c = split
        from orquesta.expressions import base as expr_base
        from orquesta.utils import context as ctx_util, dictionary as dict_util

        def thunk(e):
            info = {"has_items": has_items, "delay": delay_c, "concurrency": conc_c}
            has_initial = e.branch(S.mk_bool("task_has_initial_context").z)
            info["task_has_initial_context"] = has_initial
            task_ctx0 = {"from": "task"}
            wf_ctx0 = {"from": "workflow"}
            calls = []

            def gtic(eng, s_, tid, route):
                calls.append(("gtic", tid, route))
                if not has_initial:
                    raise Raised(ValueError, ("Unable to determine context for task",))
                return task_ctx0

            def gwic(eng, s_):
                calls.append(("gwic",))
                return wf_ctx0

            def set_current(eng, c_, task):
                calls.append(("set_current", c_, task))
                out = dict(c_); out["__current_task"] = task
                return out

            def merge(eng, l, r, overwrite=False):
                calls.append(("merge", l, r, overwrite))
                out = dict(l); out.update(r)
                return out

            n_actions = S.mk_int("n_actions")
            e.assume(n_actions.z >= 0)
            actions = S.SList(n_actions.z, lambda j: {"action": "a", "item_id": S.SInt(j)}, "action_specs") if has_items else [{"action": "a", "input": None}]
            evaluated = {}

            def evaluate(eng, expr, c_):
                calls.append(("evaluate", expr, c_))
                if not isinstance(expr, str):
                    return expr
                if expr == "<% delay %>":
                    v = S.mk_int("delay_value") if delay_c == "str->int" else "not-an-int"
                else:
                    v = S.mk_int("conc_value")
                evaluated[expr] = v
                return v

            delay_v = {"none": None, "zero": 0, "int": S.mk_int("delay_literal"), "str->int": "<% delay %>",
                       "str->other": "<% delay %>", "other": 1.5}[delay_c]
            if delay_c == "int":
                e.assume(delay_v.z != 0)
            conc_v = {"none": None, "zero": 0, "int": S.mk_int("conc_literal"), "str": "<% conc %>"}[conc_c]
            rendered_spec = AbstractObj("rendered_spec", delay=delay_v, has_items=Stub("has_items", lambda eng: has_items),
                                        **{"with": AbstractObj("with", concurrency=conc_v)})

            def render(eng, c_):
                calls.append(("render", c_))
                return (rendered_spec, actions)
            copied = AbstractObj("spec_copy", render=Stub("render", render))

            def spec_get_task(eng, tid):
                calls.append(("spec.get_task", tid))
                def render_original(en, c_):
                    calls.append(("render_uncopied", c_))
                    return (rendered_spec, actions)
                return AbstractObj("spec_of_task", copy=Stub("copy", lambda en: copied), render=Stub("render", render_original))
            spec = AbstractObj("spec", tasks=AbstractObj("spec.tasks", get_task=Stub("get_task", spec_get_task)))
            c, ws = cbase.new_conductor(st.RUNNING, spec=spec)
            e.overrides[conducting.WorkflowConductor.get_task_initial_context] = gtic
            e.overrides[conducting.WorkflowConductor.get_workflow_initial_context] = gwic
            e.overrides[conducting.WorkflowState.serialize] = lambda eng, s_: {"serialized": True}
            e.overrides[ctx_util.set_current_task] = set_current
            e.overrides[dict_util.merge_dicts] = merge
            e.overrides[expr_base.evaluate] = evaluate
            tid, route = "t", S.mk_int("route")
            raised = None
            try:
                task = e.call(conducting.WorkflowConductor.get_task, [c, tid, route], {})
            except Raised as r:
                raised = r
            # ---- delay
            if delay_c in ("str->other", "other"):
                ctx.oblige("C13.get_task.delay", raised is not None and raised.cls is TypeError, None, dict(info, raised=repr(raised)))
                ctx.canary()
                return
            if raised is not None:
                for n in self.obligations:
                    ctx.oblige(n, False, None, dict(info, raised=repr(raised)))
                return
            want_ctx = dict(task_ctx0 if has_initial else wf_ctx0)
            want_ctx["__current_task"] = {"id": tid, "route": route}
            want_ctx["__state"] = {"serialized": True}
            got_ctx = task.get("ctx")
            ok = isinstance(got_ctx, dict) and set(got_ctx) == set(want_ctx) and got_ctx["from"] == want_ctx["from"] \
                and got_ctx["__state"] == {"serialized": True} and isinstance(got_ctx["__current_task"], dict) \
                and got_ctx["__current_task"].get("id") == tid and got_ctx["__current_task"].get("route") is route
            ok = ok and task.get("id") == tid and task.get("route") is route and task.get("spec") is rendered_spec \
                and task.get("actions") is actions
            ok = ok and [c_ for c_ in calls if c_[0] == "spec.get_task"] == [("spec.get_task", tid)]
            rc = [c_ for c_ in calls if c_[0] == "render"]
            ok = ok and len(rc) == 1 and rc[0][1] is got_ctx
            ok = ok and (("gwic",) in calls) == (not has_initial)
            # the definition's own spec object is never rendered (rendering resolves expressions in place)
            ok = ok and not [c_ for c_ in calls if c_[0] == "render_uncopied"]
            ctx.oblige("C06.get_task.context", ok, None, dict(info, keys=sorted(got_ctx) if isinstance(got_ctx, dict) else None))
            if delay_c in ("none", "zero"):
                ctx.oblige("C13.get_task.delay", "delay" not in task, None, info)
            elif delay_c == "int":
                ctx.oblige("C13.get_task.delay", task.get("delay") is delay_v, None, info)
            else:
                dcalls = [c_ for c_ in calls if c_[0] == "evaluate" and isinstance(c_[1], str) and c_[1] == "<% delay %>"]
                ctx.oblige("C13.get_task.delay", task.get("delay") is evaluated.get("<% delay %>") and len(dcalls) == 1 and dcalls[0][2] is got_ctx, None, info)
            if not has_items:
                ctx.oblige("C12.get_task.items_meta", "items_count" not in task and "concurrency" not in task, None, info)
            else:
                cnt = task.get("items_count")
                cnt_ok = e.zbool_of(e.sym_eq(cnt, n_actions)) if cnt is not None else False
                want_conc = {"none": None, "zero": 0, "int": conc_v, "str": evaluated.get("<% conc %>")}[conc_c]
                got_conc = task.get("concurrency", "missing")
                conc_ok = (got_conc is want_conc) if conc_c != "zero" else (got_conc is not None and got_conc == 0 and not isinstance(got_conc, bool))
                if conc_c == "str":
                    ccalls = [c_ for c_ in calls if c_[0] == "evaluate" and isinstance(c_[1], str) and c_[1] == "<% conc %>"]
                    conc_ok = conc_ok and len(ccalls) == 1 and ccalls[0][2] is got_ctx
                ctx.oblige("C12.get_task.items_meta", z3.And(zb(cnt_ok), z3.BoolVal(bool(conc_ok))), None, dict(info, concurrency=repr(got_conc)))
            ctx.canary()

        ctx.eng.explore(thunk)
