"""Layer C: WorkflowConductor.get_next_tasks — guard, remediation, rendering errors, retry delay,
order, purity.  Ground companion over n <= 2 (quick) / 3 (thorough) staged entries with every leaf
symbolic; labelled *bounded* in the evidence (the loop over staged tasks is unrolled)."""
import z3

from orquesta import conducting
from contracts import specconst as st

from pyvc import sym as S
from pyvc.engine import AbstractObj, Raised, Stub
from pyvc.framework import Unit
from pyvc.spec import AND, OR, NOT, IMPLIES, IFF, EQ, NE, IN, NOTIN
from pyvc.sym import OptField

from . import cbase

WF_STATUSES = [st.UNSET, st.REQUESTED, st.SCHEDULED, st.DELAYED, st.RUNNING, st.PAUSING, st.PAUSED,
               st.RESUMING, st.CANCELING, st.CANCELED, st.SUCCEEDED, st.FAILED]
# the statuses in which the conductor may offer work, taken from the property statements
# (C03/C04/C09/C10): running statuses of a workflow; NOT from the code's own list
OFFERING = [st.REQUESTED, st.SCHEDULED, st.DELAYED, st.RUNNING, st.RESUMING, st.RETRYING]


def zb(x):
    return x if not isinstance(x, bool) else z3.BoolVal(x)


def entry_ready(ent):
    """z3: entry is in Ready(sigma): ready and not completed."""
    comp = ent["completed"]
    completed = z3.And(zb(comp.present), comp.value.z) if isinstance(comp, OptField) else z3.BoolVal(False)
    return z3.And(ent["ready"].z, z3.Not(completed))


def entry_rof(ent):
    rof = ent["run_on_fail"]
    return z3.And(zb(rof.present), rof.value.z) if isinstance(rof, OptField) else z3.BoolVal(False)


class GetNextTasks(Unit):
    bounded = True
    name = "C.get_next_tasks"
    functions = [
        "orquesta.conducting.WorkflowConductor.get_next_tasks",
        "orquesta.conducting.WorkflowState.get_staged_tasks",
        "orquesta.conducting.WorkflowConductor.get_workflow_status",
    ]
    obligations = {
        "C04.gnt.guard": {"props": ["C04", "C09", "C10", "C03"], "text":
            "workflow not in a running status and no ready run-on-fail entry on a failed workflow => returns [] and touches nothing (no rendering, no log, no status request)"},
        "C04.gnt.remediation_only": {"props": ["C04", "C01"], "text":
            "on a failed workflow only ready run_on_fail entries are offered"},
        "C01.gnt.only_ready": {"props": ["C01", "C03", "C12"], "text":
            "every offered task is a ready, not completed staged entry with that id and route"},
        "C13.gnt.delay": {"props": ["C13"], "text":
            "an entry carrying retry is offered with delay = retry.delay or 0"},
        "C11.gnt.contained": {"props": ["C11"], "text":
            "a rendering exception never escapes: it is logged with the task id and route, failed is requested and nothing is offered"},
        "C19.gnt.sorted": {"props": ["C19", "C08"], "text":
            "offered tasks are sorted by (id, route)"},
        "C03.gnt.progress": {"props": ["C03", "C01"], "text":
            "in a running status every ready entry whose rendering yields actions (or zero items) is offered"},
        "C19.gnt.frame": {"props": ["C19", "C18"], "text":
            "get_next_tasks does not modify staged entries, status, errors (other than through the rendering-error path and the items initialisation of _evaluate_task_actions)"},
    }
    assumptions = [
        "BOUNDED: loop over staged entries unrolled for n <= 2 (quick) / 3 (thorough) entries; ids over a 3-letter alphabet, routes 0..1; all flags and optional keys symbolic",
        "get_task: assumed contract 'may raise any Exception, else returns a task dict with the requested id/route' (weakest for C11)",
        "_evaluate_task_actions: its own contract (C12.eta.*) is used at the call: returns the same task with actions replaced by an order-preserving prefix selection",
        "log_error / request_workflow_status: recorded as ghost calls; request_workflow_status(failed) sets status to failed unless canceled (C02.pwe.fail_request)",
    ]
    trusted = ["z3 5.1", "pyvc interpreter"]

    def splits(self, tier):
        ns = [0, 1, 2] + ([3] if tier == "thorough" else [])
        return [(s, n) for s in WF_STATUSES for n in ns]

    def run_split(self, ctx, split):
        status_c, n = split
        first = [True]

        def thunk(e):
            e.register_input("status", status_c)
            e.register_input("n", n)
            staged = []
            for k in range(n):
                ent = cbase.staged_entry(e, k)
                ent["retry"] = cbase.opt(e, "retry%d" % k, {"delay": cbase.opt(e, "delay%d" % k, S.mk_int("delayv%d" % k)),
                                                           "count": 3, "tally": 1, "when": None})
                ent["__k"] = k
                staged.append(ent)
            e.register_input("staged", staged)
            snap = cbase.snapshot(staged)
            c, ws = cbase.new_conductor(status_c, staged=staged)
            log = cbase.CallLog()
            raised_for = {}

            def get_task(eng, self_, task_id, route):
                # identify the entry this call is for by identity of the symbolic leaves
                k = next(i for i, en in enumerate(staged) if en["id"] is task_id and en["route"] is route)
                log.add("get_task", k)
                r = S.mk_bool("render_raises%d" % k)
                eng.register_input("render_raises%d" % k, r)
                if eng.branch(r.z):
                    raised_for[k] = "get_task"
                    raise Raised(Exception, ("render error",))
                has_items = eng.branch(eng.register_input("has_items%d" % k, S.mk_bool("has_items%d" % k)).z)
                if has_items:
                    cnt = eng.choose(3)
                    actions = [{"action": "a", "item_id": i} for i in range(cnt)]
                else:
                    actions = [{"action": "a"}]
                spec = AbstractObj("task_spec%d" % k, has_items=Stub("has_items", lambda en: has_items))
                task = {"id": task_id, "route": route, "ctx": {}, "spec": spec, "actions": actions,
                        "__k": k, "__has_items": has_items}
                if has_items:
                    task["items_count"] = cnt
                    task["concurrency"] = None
                dl = S.mk_int("specdelay%d" % k)
                task["delay"] = cbase.opt(eng, "specdelay%d" % k, dl)
                return task

            def eta(eng, self_, task):
                k = task["__k"]
                log.add("eta", k)
                r = S.mk_bool("eta_raises%d" % k)
                eng.register_input("eta_raises%d" % k, r)
                if eng.branch(r.z):
                    raised_for[k] = "eta"
                    raise Raised(KeyError, ("items",))
                if task["__has_items"]:
                    m = eng.choose(len(task["actions"]) + 1)
                    task["actions"] = task["actions"][:m]
                log.add("eta_result", k, len(task["actions"]), task.get("items_count"))
                return task

            def log_error(eng, self_, err, task_id=None, route=None, task_transition_id=None):
                log.add("log_error", err, task_id=task_id, route=route)

            def rws(eng, self_, status):
                log.add("request_workflow_status", status)
                if status == st.FAILED and ws.status != st.CANCELED:
                    ws.status = st.FAILED

            e.overrides[conducting.WorkflowConductor.get_task] = get_task
            e.overrides[conducting.WorkflowConductor._evaluate_task_actions] = eta
            e.overrides[conducting.WorkflowConductor.log_error] = log_error
            e.overrides[conducting.WorkflowConductor.request_workflow_status] = rws

            raised = None
            result = None
            try:
                result = e.call(conducting.WorkflowConductor.get_next_tasks, [c], {})
            except Raised as r:
                raised = r
            if first[0]:
                ctx.canary()
                first[0] = False
            info = {"status": status_c, "n": n}

            ready = [entry_ready(en) for en in staged]
            rof = [entry_rof(en) for en in staged]
            any_rof_ready = z3.Or([z3.And(a, b) for a, b in zip(ready, rof)]) if staged else z3.BoolVal(False)
            offering = status_c in OFFERING
            res = result if result is not None else []

            # C11: containment
            ok = raised is None
            if raised_for:
                ok = ok and res == [] and len(log.named("request_workflow_status")) == 1 \
                    and log.named("request_workflow_status")[0][1] == (st.FAILED,)
                for k in raised_for:
                    ok = ok and any(c_[2].get("task_id") is staged[k]["id"] and c_[2].get("route") is staged[k]["route"]
                                    for c_ in log.named("log_error"))
            ctx.oblige("C11.gnt.contained", ok, None, info)
            if raised is not None:
                return

            # C04 guard
            guard_closed = z3.And(z3.BoolVal(not offering),
                                  z3.Not(z3.And(z3.BoolVal(status_c == st.FAILED), any_rof_ready)))
            untouched = (res == [] and not log.calls)
            ctx.oblige("C04.gnt.guard", z3.Implies(guard_closed, z3.BoolVal(untouched)), None, info)

            # per offered task
            for t in res:
                k = t["__k"]
                ctx.oblige("C01.gnt.only_ready", ready[k], None, info)
                if status_c == st.FAILED:
                    ctx.oblige("C04.gnt.remediation_only", z3.And(ready[k], rof[k]), None, info)
                ent = staged[k]
                rt = snap[k]["retry"]
                if "delay" in t:
                    dv = t["delay"]
                    if isinstance(dv, OptField):
                        has_delay, dval = zb(dv.present), dv.value
                    else:
                        has_delay, dval = z3.BoolVal(True), dv
                else:
                    has_delay, dval = z3.BoolVal(False), 0
                dz = dval.z if isinstance(dval, S.SInt) else z3.IntVal(dval)
                rd = rt.value["delay"]
                want = z3.If(z3.And(zb(rd.present), rd.value.z != 0), rd.value.z, 0)
                ctx.oblige("C13.gnt.delay", z3.Implies(zb(rt.present), z3.And(has_delay, dz == want)), None, info)
            if status_c != st.FAILED and not res:
                ctx.oblige("C04.gnt.remediation_only", True, None, info)
            if not res:
                ctx.oblige("C01.gnt.only_ready", True, None, info)
                ctx.oblige("C13.gnt.delay", True, None, info)

            # sortedness
            srt = True
            for a, b in zip(res, res[1:]):
                ia, ib = a["id"], b["id"]
                lt_id = e.path_lt_const(ia, ib)
                eq_id = e.zbool_of(e.sym_eq(ia, ib))
                srt = z3.And(zb(srt), z3.Or(lt_id, z3.And(eq_id, a["route"].z <= b["route"].z)))
            ctx.oblige("C19.gnt.sorted", srt, None, info)

            # progress
            if offering and not raised_for:
                offered_k = {t["__k"] for t in res}
                rendered = {c_[1][0] for c_ in log.named("eta")}
                for k in range(n):
                    # a ready entry must have been rendered; if rendering yielded work it must be offered
                    ctx.oblige("C03.gnt.progress", z3.Implies(ready[k], z3.BoolVal(k in rendered)), None, info)
                for c_ in log.named("eta_result"):
                    k, nact, icount = c_[1]
                    if nact > 0 or icount == 0:
                        ctx.oblige("C03.gnt.progress", z3.BoolVal(k in offered_k), None, info)
            else:
                ctx.oblige("C03.gnt.progress", True, None, info)

            # frame
            same = cbase.same_structure(e, snap, staged)
            st_ok = (ws.status == status_c) or bool(raised_for)
            ctx.oblige("C19.gnt.frame", z3.And(zb(same), z3.BoolVal(st_ok), z3.BoolVal(
                bool(raised_for) or not log.named("log_error"))), None, info)

        ctx.eng.explore(thunk)
        ctx.bounded.append({"unit": self.name, "bound": "n_staged=%d" % n, "status": status_c})
