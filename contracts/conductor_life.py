"""Layer C: workflow start and end — lazy initialisation of the workflow state (start tasks, input/vars
errors), terminal context, output rendering; `_has_next` (the HN / BN facts of layer M), `_evaluate_route`;
the workflow expression functions task_status_/succeeded_/failed_/completed_/result_; TaskSpec.render
(item ids).  Bounded shapes, symbolic leaves."""
import z3

from orquesta import conducting, constants, exceptions as exc
from orquesta.expressions import base as expr_base
from orquesta.expressions.functions import workflow as wf_fn
from orquesta.specs.native.v1 import models
from orquesta.utils import context as ctx_util, dictionary as dict_util, jsonify as json_util
from contracts import specconst as st

from pyvc import sym as S
from pyvc.engine import AbstractObj, Raised, Stub, SymExc
from pyvc.framework import Unit
from pyvc.sym import SBool, SConst, SInt, OptField, INTERN

from . import cbase
from .context_units import Leaf, deq, snap, deep_ids, _copy_keep_leaves


class WorkflowStart(Unit):
    bounded = True
    name = "C.workflow_state_init"
    functions = ["orquesta.conducting.WorkflowConductor.workflow_state", "orquesta.conducting.WorkflowConductor.__init__",
                 "orquesta.conducting.WorkflowState.add_staged_task", "orquesta.conducting.WorkflowState.__init__"]
    obligations = {
        "C01.init.roots": {"props": ["C01", "C14"], "text":
            "first access of the workflow state with no input/vars error: contexts = [initial context], routes = [[]], and exactly one ready staged entry per graph root (route 0, context [0], no predecessors), in root order; nothing else staged"},
        "C11.init.errors_fail": {"props": ["C11", "C05"], "text":
            "an error rendering the workflow input or vars is recorded in the errors, the workflow becomes failed, nothing is staged and no exception escapes"},
        "C19.init.once": {"props": ["C19", "C05"], "text":
            "the workflow state is initialised once: a second access returns the same object and changes nothing"},
    }
    assumptions = ["BOUNDED: 0-3 graph roots; spec.render_input / render_vars: assumed contract (return (values, errors), never raise)",
                   "merge_dicts used through its own contract (C06.merge_dicts.*); json deepcopy fresh copy"]
    trusted = ["pyvc interpreter"]

    def splits(self, tier):
        return [(n, ie, ve) for n in (0, 1, 3) for ie in (False, True) for ve in (False, True)]

    def run_split(self, ctx, split):
        n_roots, in_err, var_err = split

        def thunk(e):
            e.overrides[json_util.deepcopy] = lambda eng, v: _copy_keep_leaves(v)
            roots = [{"id": "r%d" % i, "name": "r%d" % i} for i in range(n_roots)]
            graph = AbstractObj("graph", roots=roots)
            spec = AbstractObj(
                "spec",
                render_input=Stub("render_input", lambda eng, inp, c_: ({"i": Leaf("in")}, [Exception("bad input")] if in_err else [])),
                render_vars=Stub("render_vars", lambda eng, c_: ({"v": Leaf("var")}, [Exception("bad var")] if var_err else [])))
            c = object.__new__(conducting.WorkflowConductor)
            c.__dict__.update(dict(spec=spec, catalog="native", spec_module=None, composer=None, _errors=[], _graph=graph,
                                   _inputs={"x": Leaf("x")}, _log=[], _outputs=None, _parent_ctx={"p": Leaf("p")},
                                   _workflow_state=None))
            logged = []
            e.overrides[conducting.WorkflowConductor.log_error] = \
                lambda eng, s_, err, task_id=None, route=None, task_transition_id=None: logged.append(err)
            raised = None
            try:
                ws = e.get_attr(c, "workflow_state")
                ws2 = e.get_attr(c, "workflow_state")
            except Raised as r:
                raised = r
            info = {"roots": n_roots, "input_error": in_err, "vars_error": var_err}
            if raised is not None:
                ctx.oblige("C11.init.errors_fail", False, None, dict(info, raised=repr(raised)))
                return
            ctx.oblige("C19.init.once", ws is ws2 and isinstance(ws, conducting.WorkflowState) and ws.conductor is c, None, info)
            if in_err or var_err:
                ctx.oblige("C11.init.errors_fail", len(logged) == int(in_err) + int(var_err) and ws.status == st.FAILED
                           and ws.staged == [] and ws.sequence == [], None, info)
            else:
                ok = ws.status == st.UNSET and not logged and len(ws.contexts) == 1 and ws.routes == [[]] \
                    and set(ws.contexts[0]) == {"p", "i", "v"} and len(ws.staged) == n_roots
                for k, ent in enumerate(ws.staged[:n_roots]):
                    ok = ok and ent["id"] == "r%d" % k and ent["route"] == 0 and ent["ctxs"] == {"in": [0]} and ent["prev"] == {} \
                        and ent["ready"] is True and set(ent) == {"id", "route", "ctxs", "prev", "ready"}
                ctx.oblige("C01.init.roots", ok, None, info)
            ctx.canary()

        ctx.eng.explore(thunk)
        ctx.bounded.append({"unit": self.name, "bound": "%d roots" % n_roots})


class WorkflowEnd(Unit):
    bounded = True
    name = "C.workflow_output"
    functions = ["orquesta.conducting.WorkflowConductor.render_workflow_output",
                 "orquesta.conducting.WorkflowConductor.get_workflow_terminal_context",
                 "orquesta.conducting.WorkflowState.get_terminal_tasks"]
    obligations = {
        "C06.term_ctx.fold": {"props": ["C06", "C10"], "text":
            "the terminal context is the fold over the term-flagged records in sequence order: the first one's context in full, the others' deltas without the root; with no term-flagged record it is (a copy of) the initial context - workflow input and vars - when that exists; asking for it on a workflow that is not completed is an error"},
        "C10.rwo.keeps_canceled": {"props": ["C10", "C11", "C04"], "text":
            "output rendering happens only for a completed workflow without output; rendered values are stored; rendering errors are logged and fail the workflow except when it is canceled (expired / abandoned), whose status is kept"},
    }
    assumptions = ["BOUNDED: 0-3 terminal records; get_task_context through its own contract; spec.render_output: assumed (values, errors)"]
    trusted = ["pyvc interpreter"]

    def splits(self, tier):
        return [(s, n, err) for s in [st.SUCCEEDED, st.FAILED, st.CANCELED, st.RUNNING, st.PAUSED] for n in (0, 1, 3) for err in (False, True)]

    def run_split(self, ctx, split):
        status_c, n_term, out_err = split

        def thunk(e):
            e.overrides[json_util.deepcopy] = lambda eng, v: _copy_keep_leaves(v)
            seq = [{"id": "a", "route": 0, "ctxs": {"in": [0]}, "prev": {}, "next": {}, "status": st.SUCCEEDED}]
            # later terminal records share non-root deltas with the first one (a delta superseded on the
            # way to a later terminal task must be applied again, in that task's own order)
            term_ctxs = [[0, 1, 2], [0, 2, 3], [0, 3, 1]]
            for k in range(n_term):
                seq.append({"id": "t%d" % k, "route": 0, "ctxs": {"in": list(term_ctxs[k])}, "prev": {}, "next": {},
                            "status": st.SUCCEEDED, "term": True})
            calls = []

            def gtc(eng, s_, idxs):
                calls.append(list(idxs))
                return {"ctx_of": tuple(idxs)}

            merged = []

            def merge(eng, l, r, overwrite=True):
                merged.append((l, r, overwrite))
                if isinstance(l, dict) and "merged" in l:
                    l["merged"].append(r)
                    return l
                return {"merged": [l, r]}

            e.overrides[conducting.WorkflowConductor.get_task_context] = gtc
            e.overrides[dict_util.merge_dicts] = merge
            logged, requested = [], []
            e.overrides[conducting.WorkflowConductor.log_errors] = lambda eng, s_, errors, **kw: logged.extend(errors)

            def rws(eng, s_, status):
                requested.append(status)
                s_._workflow_state.status = status
            e.overrides[conducting.WorkflowConductor.request_workflow_status] = rws
            rendered = {"o": Leaf("out")}
            spec = AbstractObj("spec", render_output=Stub("render_output", lambda eng, c_: (rendered, [Exception("bad")] if out_err else [])))
            # the initial context may not exist (input / vars rendering failed before anything ran)
            established = n_term > 0 or e.branch(S.mk_bool("initial_context_established").z)
            root = {"in": Leaf("input"), "v": Leaf("var")}
            c, ws = cbase.new_conductor(status_c, sequence=seq, spec=spec, contexts=[root, {}, {}, {}] if established else [])
            e.overrides[conducting.WorkflowState.serialize] = lambda eng, s_: {"state": True}
            info = {"status": status_c, "terminal_records": n_term, "output_error": out_err}
            # terminal context
            raised = None
            try:
                tctx = e.call(conducting.WorkflowConductor.get_workflow_terminal_context, [c], {})
            except Raised as r:
                raised = r
            if status_c not in st.COMPLETED_STATUSES:
                ctx.oblige("C06.term_ctx.fold", raised is not None and raised.cls is exc.WorkflowContextError, None, info)
            else:
                want_calls = ([term_ctxs[0]] + [term_ctxs[k][1:] for k in range(1, n_term)]) if n_term else []
                ok = raised is None and calls == want_calls
                if n_term == 0:
                    # nothing is terminal (the workflow was canceled or failed while nothing ran, e.g.
                    # canceled while paused): it ends with the context it started with - the workflow
                    # input and vars stay available to the output expressions - as a copy
                    ok = raised is None and not calls and (
                        (tctx == root and tctx is not root) if established else tctx == {})
                if ok and n_term >= 1:
                    ok = len(merged) == n_term - 1 and all(m[2] is True for m in merged)
                ctx.oblige("C06.term_ctx.fold", ok, None, dict(info, calls=calls))
            # output rendering
            calls.clear(); merged.clear()
            raised = None
            try:
                e.call(conducting.WorkflowConductor.render_workflow_output, [c], {})
            except Raised as r:
                raised = r
            if status_c not in st.COMPLETED_STATUSES:
                ok = raised is None and c._outputs is None and not logged and not requested
            else:
                ok = raised is None and c._outputs is rendered and len(logged) == int(out_err)
                if out_err and status_c != st.CANCELED:
                    ok = ok and requested == [st.FAILED]
                else:
                    ok = ok and not requested and ws.status == status_c
            ctx.oblige("C10.rwo.keeps_canceled", ok, None, dict(info, requested=requested, raised=repr(raised)))
            ctx.canary()

        ctx.eng.explore(thunk)
        ctx.bounded.append({"unit": self.name, "bound": "%d terminal records" % n_term})


class HasNext(Unit):
    bounded = True
    name = "C._has_next"
    functions = ["orquesta.conducting.WorkflowConductor._has_next", "orquesta.conducting.WorkflowConductor.has_next_tasks",
                 "orquesta.conducting.WorkflowConductor.has_barrier_next", "orquesta.conducting.WorkflowConductor._evaluate_route"]
    obligations = {
        "C02.hn.definition": {"props": ["C02", "C03", "C07"], "text":
            "has_next_tasks(task, route) holds iff the task's latest record on that route is completed and some outbound transition other than `continue` was decided true and its target is not a join whose inbound criteria can no longer be satisfied; has_barrier_next ignores the join's inbound status"},
        "C01.route.split": {"props": ["C01", "C18"], "text":
            "_evaluate_route keeps the route unless the target is a split task outside a cycle; then it reuses an identical route or appends exactly one new route = old route + this transition, never changing an existing route"},
    }
    assumptions = ["BOUNDED: <= 2 outbound transitions (plain / join / continue), record present/absent with symbolic status and decisions",
                   "graph / spec stubs; get_inbound_criteria_status through its own contract"]
    trusted = ["z3 5.1", "pyvc interpreter"]

    def splits(self, tier):
        cfgs = [[], ["n1"], ["j1"], ["continue"], ["n1", "j1"], ["continue", "n1"], ["j1", "j1"]]
        return [("hn", tuple(c)) for c in cfgs] + [("route", k) for k in range(4)]

    def run_split(self, ctx, split):
        kind, arg = split
        if kind == "route":
            return self.run_route(ctx, arg)
        targets = list(arg)

        def thunk(e):
            present = e.branch(S.mk_bool("record_present").z)
            status = st.ALL_STATUSES[e.choose(len(st.ALL_STATUSES))]
            sequence, tasks = [], {}
            decided = {}
            if present:
                rec = {"id": "t", "route": 0, "ctxs": {"in": [0]}, "prev": {}, "next": {}}
                if status != st.UNSET:
                    rec["status"] = status
                for i, tg in enumerate(targets):
                    k = e.choose(3)
                    if k:
                        v = S.mk_bool("next%d" % i)
                        rec["next"]["%s__t%d" % (tg, i)] = v
                        decided[i] = v.z
                sequence.append(rec)
                tasks["t__r0"] = 0
            inbound = S.mk_const("inbound", (constants.INBOUND_CRITERIA_SATISFIED, constants.INBOUND_CRITERIA_WIP,
                                             constants.INBOUND_CRITERIA_NOT_SATISFIED))
            e.assume(inbound.dom_constraint())
            graph = AbstractObj(
                "graph",
                get_next_transitions=Stub("gnt", lambda eng, x: sorted([("t", tg, i, {"criteria": [], "ref": i}) for i, tg in enumerate(targets)], key=lambda q: q[1])),
                has_barrier=Stub("has_barrier", lambda eng, x: x == "j1"))
            c, ws = cbase.new_conductor(st.RUNNING, sequence=sequence, tasks=tasks, graph=graph)
            e.overrides[conducting.WorkflowConductor.get_inbound_criteria_status] = lambda eng, s_, tid, route: inbound
            hn = e.call(conducting.WorkflowConductor.has_next_tasks, [c], {"task_id": "t", "route": 0})
            bn = e.call(conducting.WorkflowConductor.has_barrier_next, [c, "t"], {"route": 0})
            zb = lambda x: e.zbool_of(x) if not isinstance(x, bool) else z3.BoolVal(x)
            completed = present and status in st.COMPLETED_STATUSES
            not_unsat = inbound.z != INTERN.id_of(constants.INBOUND_CRITERIA_NOT_SATISFIED)
            want_hn, want_bn = [], []
            for i, tg in enumerate(targets):
                if tg == "continue" or i not in decided:
                    continue
                want_bn.append(decided[i])
                want_hn.append(z3.And(decided[i], not_unsat) if tg == "j1" else decided[i])
            whn = z3.And(z3.BoolVal(completed), z3.Or(want_hn) if want_hn else z3.BoolVal(False))
            wbn = z3.And(z3.BoolVal(completed), z3.Or(want_bn) if want_bn else z3.BoolVal(False))
            ctx.oblige("C02.hn.definition", z3.And(zb(hn) == whn, zb(bn) == wbn), None,
                       {"targets": targets, "record": present, "status": status})
            ctx.canary()

        ctx.eng.explore(thunk)
        ctx.bounded.append({"unit": self.name, "bound": "targets=%s" % targets})

    def run_route(self, ctx, case):
        def thunk(e):
            e.overrides[json_util.deepcopy] = cbase.deepcopy_model
            split, cyc = bool(case & 1), bool(case & 2)
            spec = AbstractObj("spec", tasks=AbstractObj("spec.tasks", is_split_task=Stub("is_split", lambda eng, x: split)))
            graph = AbstractObj("graph", in_cycle=Stub("in_cycle", lambda eng, x: [["x"]] if cyc else []))
            for routes, prev in (([[]], 0), ([[], ["a__t0"]], 1), ([[], ["a__t0"]], 0), ([[], ["a__t0"], ["a__t0", "b__t1"]], 1)):
                routes = [list(r) for r in routes]
                before = [list(r) for r in routes]
                c, ws = cbase.new_conductor(st.RUNNING, routes=routes, graph=graph, spec=spec)
                tr = ("a", "n", 0, {"criteria": [], "ref": 0})
                r = e.call(conducting.WorkflowConductor._evaluate_route, [c, tr, prev], {})
                info = {"split": split, "in_cycle": cyc, "routes": before, "prev_route": prev}
                ok = routes[:len(before)] == before
                if not split or cyc:
                    ok = ok and r == prev and routes == before
                else:
                    want = before[prev] + (["a__t0"] if "a__t0" not in before[prev] else [])
                    if want == before[prev]:
                        ok = ok and r == prev and routes == before
                    else:
                        ok = ok and len(routes) == len(before) + 1 and r == len(before) and routes[r] == want
                ctx.oblige("C01.route.split", ok, None, info)
            ctx.canary()
        ctx.eng.explore(thunk)


class HasNextGeneric(Unit):
    """_has_next over an outbound list of any length: the guard, one arbitrary loop iteration, the fall-through."""
    name = "C._has_next.generic"
    functions = ["orquesta.conducting.WorkflowConductor._has_next", "orquesta.conducting.WorkflowConductor.has_next_tasks",
                 "orquesta.conducting.WorkflowConductor.has_barrier_next", "orquesta.conducting.WorkflowConductor.get_task_state_entry"]
    obligations = {
        "C02.hn.definition_any": {"props": ["C02", "C03", "C07"], "text":
            "for an outbound transition list of any length: False without looking at the transitions unless the task's latest record on the route is completed; an arbitrary loop iteration returns True iff its transition is not `continue`, was decided true in the record, and (has_next_tasks only) its target is not a join whose inbound criteria - asked for exactly that target and this route - are NOT_SATISFIED; otherwise it goes on to the next transition without any effect; when no iteration returns, the answer is False; the record is never modified"},
    }
    assumptions = [
        "loop summary: the body is verified for one arbitrary element of the outbound list; an iteration either returns True or continues without effect (shown), so the call returns True iff some element satisfies the per-element predicate - this first-hit argument is stated, not re-proved by the solver",
        "graph.get_next_transitions / has_barrier: assumed contracts (an arbitrary list; an arbitrary truth value for the target); get_inbound_criteria_status: assumed contract (arbitrary criteria status, no effect) - its definition is the subject of C.get_inbound_criteria_status",
        "the transition id is formatted from concrete ids (target `n1` or `continue`, key 0); whether the record holds a decision for it, and which, is symbolic",
    ]
    trusted = ["z3 5.1", "pyvc interpreter"]
    timeout_ms = 20000

    def splits(self, tier):
        return [("has_next_tasks", t) for t in ("n1", "continue")] + [("has_barrier_next", t) for t in ("n1", "continue")]

    def run_split(self, ctx, split):
        from pyvc.engine import _Continue, _Return
        which, tgt = split
        CRIT = (constants.INBOUND_CRITERIA_SATISFIED, constants.INBOUND_CRITERIA_WIP, constants.INBOUND_CRITERIA_NOT_SATISFIED)

        def thunk(e):
            present = e.branch(S.mk_bool("record_present").z)
            status = st.ALL_STATUSES[e.choose(len(st.ALL_STATUSES))]
            sequence, tasks = [], {}
            decided = None
            if present:
                rec = {"id": "t", "route": 0, "ctxs": {"in": [0]}, "prev": {}, "next": {}}
                if status != st.UNSET:
                    rec["status"] = status
                k = e.choose(3)
                if k == 1:
                    decided = S.mk_bool("decision")
                    rec["next"]["%s__t0" % tgt] = decided
                elif k == 2:
                    rec["next"]["other__t0"] = True
                sequence.append(rec)
                tasks["t__r0"] = 0
            isb = e.register_input("target_is_join", S.mk_bool("target_is_join"))
            inbound = e.register_input("inbound", S.mk_const("inbound", CRIT))
            e.assume(inbound.dom_constraint())
            e.register_input("call", which)
            e.register_input("target", tgt)
            e.register_input("record", bool(present))
            e.register_input("status", status)
            e.register_input("decision_present", decided is not None)
            if decided is not None:
                e.register_input("decision", decided)
            outbounds = AbstractObj("outbounds")
            log = {"gnt": 0, "gics": [], "iter": None, "loops": 0}

            def gnt(eng, x):
                log["gnt"] += 1
                return outbounds

            def gics(eng, s_, tid, route):
                log["gics"].append((tid, route))
                return inbound
            graph = AbstractObj("graph", get_next_transitions=Stub("gnt", gnt),
                                has_barrier=Stub("has_barrier", lambda eng, x: isb if x == tgt else S.mk_bool("other_is_join")))
            c, ws = cbase.new_conductor(st.RUNNING, sequence=sequence, tasks=tasks, graph=graph)
            e.overrides[conducting.WorkflowConductor.get_inbound_criteria_status] = gics
            snap0 = [cbase.snapshot(r) for r in sequence]

            def loop(en, st_, env):
                log["loops"] += 1
                xs = en.eval(st_.iter, env)
                if xs is not outbounds:
                    raise S.Unsupported("the loop of _has_next does not iterate the outbound transitions")
                if en.choose(2) == 0:
                    log["iter"] = "none"
                    return
                log["iter"] = "one"
                en.assign(st_.target, ("t", tgt, 0, {"criteria": [], "ref": 0}), env)
                try:
                    en.exec_block(st_.body, env)
                except _Continue:
                    pass
                # the iteration did not return: it must have had no effect (checked below), go on
                log["iter"] = "one-continued"

            e.loop_handlers["WorkflowConductor._has_next:loop#0"] = loop
            if which == "has_next_tasks":
                res = e.call(conducting.WorkflowConductor.has_next_tasks, [c], {"task_id": "t", "route": 0})
            else:
                res = e.call(conducting.WorkflowConductor.has_barrier_next, [c, "t"], {"route": 0})
            ctx.canary()
            zb = lambda x: e.zbool_of(x) if not isinstance(x, bool) else z3.BoolVal(x)
            completed = present and status in st.COMPLETED_STATUSES
            cl = []
            if not completed:
                cl += [zb(res) == z3.BoolVal(False), z3.BoolVal(log["loops"] == 0)]
            else:
                cl.append(z3.BoolVal(log["loops"] == 1 and log["gnt"] == 1))
                if log["iter"] == "none":
                    cl.append(zb(res) == z3.BoolVal(False))
                else:
                    dec = decided.z if (decided is not None and tgt != "continue") else z3.BoolVal(False)
                    if which == "has_next_tasks":
                        pred = z3.And(dec, z3.Or(z3.Not(isb.z), inbound.z != INTERN.id_of(constants.INBOUND_CRITERIA_NOT_SATISFIED)))
                    else:
                        pred = dec
                    cl.append(zb(res) == pred)
                    cl.append(z3.BoolVal(isinstance(res, bool) or isinstance(res, SBool)))
            cl.append(z3.BoolVal(all(t_ == tgt and (r_ == 0 and not isinstance(r_, bool)) for t_, r_ in log["gics"])))
            if which == "has_barrier_next":
                cl.append(z3.BoolVal(not log["gics"]))
            same = cbase.same_structure(e, snap0, sequence)
            cl.append(z3.BoolVal(same) if isinstance(same, bool) else same)
            ctx.oblige("C02.hn.definition_any", z3.And(cl), None,
                       {"call": which, "target": tgt, "record": present, "status": status, "iteration": log["iter"]})

        ctx.eng.explore(thunk)

    def native(self, inputs):
        """Counter-model replay: the real method on a real conductor whose task has exactly the one
        outbound transition of the model (and a second run with an undecided transition in front of it)."""
        import types
        tgt, which = inputs["target"], inputs["call"]
        dec = bool(inputs.get("decision")) if inputs.get("decision_present") else None
        isb, inbound = bool(inputs.get("target_is_join")), inputs.get("inbound")
        completed = inputs["record"] and inputs["status"] in st.COMPLETED_STATUSES
        want = bool(completed and tgt != "continue" and dec
                    and (which == "has_barrier_next" or not isb or inbound != constants.INBOUND_CRITERIA_NOT_SATISFIED))
        cases, ok = [], True
        for lead in ([], [("t", "zz", 0, {})]):
            sequence, tasks = [], {}
            if inputs["record"]:
                rec = {"id": "t", "route": 0, "ctxs": {"in": [0]}, "prev": {}, "next": {}}
                if inputs["status"] != st.UNSET:
                    rec["status"] = inputs["status"]
                if dec is not None:
                    rec["next"]["%s__t0" % tgt] = dec
                sequence.append(rec)
                tasks["t__r0"] = 0
            graph = types.SimpleNamespace(get_next_transitions=lambda t: lead + [("t", tgt, 0, {})],
                                          has_barrier=lambda t: isb if t == tgt else False)
            c, ws = cbase.new_conductor(st.RUNNING, sequence=sequence, tasks=tasks, graph=graph)
            c.get_inbound_criteria_status = lambda tid, route: inbound
            before = json_util.deepcopy(sequence)
            try:
                r = c.has_next_tasks(task_id="t", route=0) if which == "has_next_tasks" else c.has_barrier_next("t", route=0)
            except Exception as ex:
                cases.append({"raised": repr(ex)})
                ok = False
                continue
            good = (r is want) and sequence == before
            cases.append({"outbound": [x[1] for x in lead] + [tgt], "returned": r, "specified": want, "record_unchanged": sequence == before})
            ok = ok and good
        return {"cases": cases, "ok": ok}

    def clause(self, name):
        return (lambda v: v["ok"]) if name == "C02.hn.definition_any" else None


class RouteSplitGeneric(Unit):
    """_evaluate_route on a routes list of any length whose selected route has any length and any content."""
    name = "C._evaluate_route.generic"
    functions = ["orquesta.conducting.WorkflowConductor._evaluate_route"]
    obligations = {
        "C01.route.split_any": {"props": ["C01", "C18"], "text":
            "for a routes list of any length N and a previous route of any length and content: the previous route is returned and nothing is written unless the target is a split task outside a cycle and the transition is not yet in the previous route; then exactly one route = previous route + [this transition] is appended and N is returned; no existing route (the previous one included) is modified, removed or replaced, and only the previous route is read"},
    }
    assumptions = [
        "routes list: abstract sequence of symbolic length N read through __getitem__(prev_route) / __len__ and extended through append only (any other access: undecided); the previous route is a symbolic-length list of opaque transition ids",
        "spec.tasks.is_split_task / graph.in_cycle: assumed contracts (arbitrary truth values of the target id); json_util.deepcopy: assumed contract (fresh structural copy)",
        "the transition id is formatted from concrete ids (string formatting is not modelled symbolically): one named transition, arbitrary route content",
    ]
    trusted = ["z3 5.1", "pyvc interpreter"]
    timeout_ms = 20000

    def splits(self, tier):
        return ["generic"]

    def run_split(self, ctx, split):
        from pyvc.sym import SList

        def thunk(e):
            e.overrides[json_util.deepcopy] = cbase.deepcopy_model
            I = z3.IntSort()
            relem = z3.Function(S.fresh_name("route_elem"), I, I)
            m = z3.Int(S.fresh_name("route_len"))
            n = z3.Int(S.fresh_name("n_routes"))
            prev = z3.Int(S.fresh_name("prev_route"))
            e.assume(z3.And(m >= 0, n >= 1, prev >= 0, prev < n))
            old_get = lambda j: SConst(relem(j if not isinstance(j, int) else z3.IntVal(j)))
            old = SList(m, old_get, "prev_route_details")
            split_z, cyc_z = S.mk_bool("is_split"), S.mk_bool("in_cycle")
            e.register_input("is_split", split_z)
            e.register_input("in_cycle", cyc_z)
            log = {"get": [], "append": []}

            def getitem(eng, k):
                log["get"].append(k)
                kz = k.z if isinstance(k, SInt) else k
                if not (isinstance(kz, int) or z3.is_int(kz)) or not z3.is_true(z3.simplify(kz == prev)):
                    raise S.Unsupported("a route other than the previous one is read")
                return old

            def append(eng, v):
                log["append"].append(v)

            routes = AbstractObj("routes", __getitem__=Stub("__getitem__", getitem), append=Stub("append", append),
                                 __len__=Stub("__len__", lambda eng: SInt(n + len(log["append"]))))
            spec = AbstractObj("spec", tasks=AbstractObj("spec.tasks", is_split_task=Stub("is_split", lambda eng, x: split_z)))
            graph = AbstractObj("graph", in_cycle=Stub("in_cycle", lambda eng, x: cyc_z))
            c, ws = cbase.new_conductor(st.RUNNING, routes=routes, graph=graph, spec=spec)
            tr = ("a", "n", 0, {"criteria": [], "ref": 0})
            tid = "a__t0"
            r = e.call(conducting.WorkflowConductor._evaluate_route, [c, tr, SInt(prev)], {})
            ctx.canary()
            # ghost: is the transition already in the previous route (evaluated on the entry value of the route)
            q = z3.Int(S.fresh_name("q"))
            present = z3.Exists([q], z3.And(0 <= q, q < m, relem(q) == INTERN.id_of(tid)))
            new_needed = z3.And(split_z.z, z3.Not(cyc_z.z), z3.Not(present))
            rz = r.z if isinstance(r, SInt) else z3.IntVal(r)
            cl = []
            # frame: the previous route object is untouched (same length, same element function)
            cl.append(z3.BoolVal(old.get is old_get))
            cl.append(old.length == m)
            cl.append(z3.BoolVal(ws.routes is routes))
            napp = len(log["append"])
            cl.append(z3.BoolVal(napp <= 1))
            cl.append(new_needed == z3.BoolVal(napp == 1))
            if napp == 1:
                v = log["append"][0]
                ok_v = isinstance(v, SList) and v is not old
                cl.append(z3.BoolVal(ok_v))
                if ok_v:
                    j = z3.Int(S.fresh_name("j"))
                    vj = v.get(j)
                    vz = vj.z if isinstance(vj, SConst) else z3.IntVal(INTERN.id_of(vj))
                    cl.append(v.length == m + 1)
                    cl.append(z3.ForAll([j], z3.Implies(z3.And(0 <= j, j < m), vz == relem(j))))
                    vl = v.get(m)
                    cl.append((vl.z if isinstance(vl, SConst) else z3.IntVal(INTERN.id_of(vl))) == INTERN.id_of(tid))
                cl.append(rz == n)
            else:
                cl.append(rz == prev)
            ctx.oblige("C01.route.split_any", z3.And(cl), None, {"appended": napp})

        ctx.eng.explore(thunk)

    def native(self, inputs):
        """Counter-model replay: the real method on a real conductor whose previous route does / does not
        already hold the transition, with the model's answers for is_split_task / in_cycle."""
        import types
        split, cyc = bool(inputs.get("is_split")), bool(inputs.get("in_cycle"))
        cases, ok = [], True
        for in_route in (False, True):
            before = [[], ["x__t0"] + (["a__t0"] if in_route else [])]
            routes = [list(r) for r in before]
            spec = types.SimpleNamespace(tasks=types.SimpleNamespace(is_split_task=lambda t: split))
            graph = types.SimpleNamespace(in_cycle=lambda t: [["n"]] if cyc else [])
            c, ws = cbase.new_conductor(st.RUNNING, routes=routes, graph=graph, spec=spec)
            try:
                r = c._evaluate_route(("a", "n", 0, {"criteria": [], "ref": 0}), 1)
            except Exception as e:
                cases.append({"routes": before, "raised": repr(e)})
                ok = False
                continue
            if split and not cyc and not in_route:
                good = r == 2 and ws.routes == before + [before[1] + ["a__t0"]]
            else:
                good = r == 1 and ws.routes == before
            cases.append({"routes_before": before, "routes_after": ws.routes, "returned": r, "as_specified": good})
            ok = ok and good
        return {"cases": cases, "ok": ok}

    def clause(self, name):
        return (lambda v: v["ok"]) if name == "C01.route.split_any" else None


class WorkflowFunctions(Unit):
    bounded = True
    name = "X.workflow_functions"
    functions = ["orquesta.expressions.functions.workflow.task_status_", "orquesta.expressions.functions.workflow.succeeded_",
                 "orquesta.expressions.functions.workflow.failed_", "orquesta.expressions.functions.workflow.completed_",
                 "orquesta.expressions.functions.workflow.result_", "orquesta.specs.native.v1.models.TaskSpec.render",
                 "orquesta.conducting.WorkflowConductor.make_task_context"]
    obligations = {
        "C01.wf_functions.actual": {"props": ["C01"], "text":
            "succeeded()/failed()/completed()/result() read the status of the current task's latest record in the serialised state (falling back to the nearest ancestor route) and the result passed for this completion: conditions are evaluated on the predecessor's actual status and result"},
        "C01.make_task_context.actuals": {"props": ["C01", "C06", "C16"], "text":
            "the context for conditions and publishes is the task's inbound context plus __current_task = {id, route, result} and __state = the serialised workflow state; the stored contexts are not touched"},
        "C16.render.item_exact": {"props": ["C16", "C12"], "text":
            "with the named form `x in <expr>` every item - whatever JSON value it is, a JSON object or a list included - is bound unchanged to x; with `x, y in <expr>` list items are unpacked positionally"},
        "C12.render.item_ids": {"props": ["C12"], "text":
            "TaskSpec.render yields one action per item with item_id = position (0..n-1) in item order, none for an empty list, and rejects a non-list"},
    }
    assumptions = ["BOUNDED: records with each status, 3 routes; item lists of 0-3 elements; expr_base.evaluate assumed"]
    trusted = ["pyvc interpreter"]

    def run_split(self, ctx, split):
        def thunk(e):
            e.overrides[json_util.deepcopy] = lambda eng, v: _copy_keep_leaves(v)
            for status in st.ALL_STATUSES:
                rec = {"id": "t", "route": 1}
                if status != st.UNSET:
                    rec["status"] = status
                state = {"tasks": {"t__r1": 0, "u__r0": 1}, "sequence": [rec, {"id": "u", "route": 0, "status": st.FAILED}],
                         "routes": [[], ["a__t0"], ["a__t0", "b__t0"]]}
                res = Leaf("result")
                context = {"__current_task": {"id": "t", "route": 1, "result": res}, "__state": state}
                ok = e.call(wf_fn.task_status_, [context, "t"], {}) == status \
                    and e.call(wf_fn.succeeded_, [context], {}) == (status == st.SUCCEEDED) \
                    and e.call(wf_fn.failed_, [context], {}) == (status == st.FAILED) \
                    and e.call(wf_fn.completed_, [context], {}) == (status in st.COMPLETED_STATUSES) \
                    and e.call(wf_fn.result_, [context], {}) is res \
                    and e.call(wf_fn.task_status_, [context, "u"], {"route": 2}) == st.FAILED \
                    and e.call(wf_fn.task_status_, [context, "nope"], {}) == st.UNSET
                ctx.oblige("C01.wf_functions.actual", ok, None, {"status": status})
            # make_task_context
            contexts = [{"a": Leaf("a")}, {"b": {"x": Leaf("bx")}}]
            sn, ids = snap(contexts), deep_ids(contexts)
            c, ws = cbase.new_conductor(st.RUNNING, contexts=contexts)
            e.overrides[conducting.WorkflowState.serialize] = lambda eng, s_: {"SERIALIZED": True}
            entry = {"id": "t", "route": 2, "ctxs": {"in": [0, 1]}}
            r = Leaf("r")
            cx = e.call(conducting.WorkflowConductor.make_task_context, [c, entry], {"task_result": r})
            ok = cx.get("__current_task") == {"id": "t", "route": 2, "result": r} and cx["__current_task"]["result"] is r \
                and cx.get("__state") == {"SERIALIZED": True} and deq({k: v for k, v in cx.items() if not k.startswith("__")},
                                                                      {"a": sn[0]["a"], "b": sn[1]["b"]}) \
                and deq(contexts, sn) and deep_ids(contexts) == ids and not (deep_ids(cx) & ids)
            ctx.oblige("C01.make_task_context.actuals", ok, None, {})
            # TaskSpec.render
            for items in ([], [Leaf("i0")], [Leaf("i0"), Leaf("i1"), Leaf("i2")], "notalist"):
                spec = models.TaskSpec({"action": "core.echo", "input": {"m": "<% item() %>"}, "with": {"items": "<% ctx(xs) %>"}})
                seen = []

                def evaluate(eng, statement, data=None, items=items, seen=seen):
                    if statement == "<% ctx(xs) %>":
                        return items
                    seen.append((statement, data.get("__current_item") if isinstance(data, dict) else None))
                    return statement
                e.overrides[expr_base.evaluate] = evaluate
                raised = None
                try:
                    _, actions = e.call(models.TaskSpec.render, [spec, {"xs": 1}], {})
                except Raised as rr:
                    raised = rr
                if items == "notalist":
                    ok = raised is not None and raised.cls is TypeError
                else:
                    ok = raised is None and [a.get("item_id") for a in actions] == list(range(len(items))) \
                        and [s_[1] for s_ in seen if s_[0] == "core.echo"] == list(items)
                ctx.oblige("C12.render.item_ids", ok, None, {"items": repr(items)})
            for items, form, want in (
                    ([{"name": "vm1", "region": "eu"}, "s", 3, None, ["l"], [[5, 6], 7], []], "x in <% ctx(xs) %>", None),
                    ([["a", 1], ["b", 2]], "k, v in <% ctx(xs) %>", [{"k": "a", "v": 1}, {"k": "b", "v": 2}])):
                spec = models.TaskSpec({"action": "core.echo", "input": {"m": "<% item() %>"}, "with": {"items": form}})
                seen = []

                def evaluate2(eng, statement, data=None, items=items, seen=seen):
                    if statement == "<% ctx(xs) %>":
                        return items
                    if statement == "core.echo":
                        seen.append(data.get("__current_item") if isinstance(data, dict) else None)
                    return statement
                e.overrides[expr_base.evaluate] = evaluate2
                raised = None
                try:
                    e.call(models.TaskSpec.render, [spec, {"xs": 1}], {})
                except Raised as rr:
                    raised = rr
                if want is None:
                    # one name: the whole item is bound to it, a list-valued item included (it is not
                    # destructured: that is what several names are for)
                    want = [{"x": it} for it in items]
                ctx.oblige("C16.render.item_exact", raised is None and seen == want, None, {"form": form, "items": repr(items), "got": repr(seen)})
            ctx.canary()

        ctx.eng.explore(thunk)
        ctx.bounded.append({"unit": self.name, "bound": "all statuses; 0-3 items"})
