"""The specification's own vocabulary of statuses (taken from the documented lifecycle, NOT read from
/repo): contracts are written against these, so a change to orquesta/statuses.py changes the code
under verification but not the specification.  C02.statuses.* obliges the two to agree."""
REQUESTED = "requested"
SCHEDULED = "scheduled"
DELAYED = "delayed"
RUNNING = "running"
PENDING = "pending"
PAUSING = "pausing"
PAUSED = "paused"
RESUMING = "resuming"
SUCCEEDED = "succeeded"
FAILED = "failed"
EXPIRED = "timeout"
ABANDONED = "abandoned"
RETRYING = "retrying"
CANCELING = "canceling"
CANCELED = "canceled"
UNSET = "null"

ALL_STATUSES = [REQUESTED, SCHEDULED, DELAYED, RUNNING, PENDING, PAUSING, PAUSED, RESUMING, SUCCEEDED,
                FAILED, EXPIRED, ABANDONED, RETRYING, CANCELING, CANCELED, UNSET]
# a task may be (re)started with one of these
STARTING_STATUSES = [REQUESTED, SCHEDULED, DELAYED, RUNNING, PENDING]
# the workflow offers work in these
RUNNING_STATUSES = [REQUESTED, SCHEDULED, DELAYED, RUNNING, RESUMING, RETRYING]
# an action is in flight at the provider
ACTIVE_STATUSES = [REQUESTED, SCHEDULED, DELAYED, RUNNING, RESUMING, PAUSING, CANCELING]
PAUSE_STATUSES = [PAUSING, PAUSED]
CANCEL_STATUSES = [CANCELING, CANCELED]
ABENDED_STATUSES = [FAILED, EXPIRED, ABANDONED]
COMPLETED_STATUSES = [SUCCEEDED, FAILED, EXPIRED, ABANDONED, CANCELED]

LISTS = ["ALL_STATUSES", "STARTING_STATUSES", "RUNNING_STATUSES", "ACTIVE_STATUSES", "PAUSE_STATUSES",
         "CANCEL_STATUSES", "ABENDED_STATUSES", "COMPLETED_STATUSES"]
