"""Expression-side contracts (C11, C15, C16, C20) on code that wraps third-party interpreters
(yaql, jinja2, re, ujson).  These are outside the reach of the VC generator: BOUNDED stand-ins that
run the real functions natively over a stated value / expression grammar and compare with the spec
function.  Never counted as proved."""
import copy

import z3
import itertools
import json

from orquesta import exceptions as exc
from orquesta.expressions import base as expr_base
from orquesta.specs import native as native_specs
from orquesta.specs.native.v1 import models
from orquesta.utils import jsonify as json_util, parameters as args_util

from pyvc.framework import Unit


def typed_eq(a, b):
    """equal in value AND type, recursively (True != 1, 1 != 1.0)"""
    if type(a) is not type(b):
        return False
    if isinstance(a, dict):
        return set(a) == set(b) and all(typed_eq(a[k], b[k]) for k in a)
    if isinstance(a, list):
        return len(a) == len(b) and all(typed_eq(x, y) for x, y in zip(a, b))
    if isinstance(a, float) and a != a:
        return b != b
    return a == b


LEAVES = [0, 1, -1, 2 ** 53, 2 ** 63, 2 ** 70, -2 ** 65, 1.5, -0.0, 1e308, 5e-324, True, False, None, "", "x",
          "1", "1.0", "true", "null", "%s %d", "line\n", "tail\r\n", "\n", "  pad  ", "üñí😀", "a=b, c", "{}", "[1]"]


def values():
    out = list(LEAVES)
    out += [[], {}, [1, True, None, "x"], {"k": 1, "n": {"b": False, "l": [1.5, "s\n"]}}, [[[]]], {"a": {"b": {"c": [2 ** 70]}}}]
    out += [{"s": s} for s in ("line\n", "1", "true")]
    return out


class Evaluators(Unit):
    bounded = True
    name = "X.evaluators"
    functions = ["orquesta.expressions.base.evaluate", "orquesta.expressions.yql.YAQLEvaluator.evaluate",
                 "orquesta.expressions.jinja.JinjaEvaluator.evaluate", "orquesta.utils.jsonify.deepcopy"]
    obligations = {
        "C16.evaluate.identity": {"props": ["C16"], "text":
            "a JSON value containing no expression delimiters is returned by evaluate() exactly, in type and value, at every nesting depth"},
        "C16.eval.single_reference_exact": {"props": ["C16"], "text":
            "a value referenced by a single YAQL or Jinja expression in each documented form (ctx().x, ctx(x), ctx('x'), nested in a container) is returned exactly, in type and value"},
        "C16.eval.pure": {"props": ["C16", "C19"], "text":
            "evaluating an expression never modifies the context it is evaluated against - a reading expression in any reference form, and also an expression that calls a mutating method (pop, append, update, setdefault, sort) on a value of the context: it may evaluate or be refused, the context stays as it was"},
        "C16.deepcopy.exact": {"props": ["C16", "C05"], "text":
            "json_util.deepcopy returns an equal value of the same types that shares no container with its argument"},
        "C11.eval.no_undefined_in_values": {"props": ["C11", "C16"], "text":
            "a lookup that fails inside a list or dict result (a missing attribute under map(), a missing key in a dict literal) is an evaluation error in both languages: evaluate() returns a JSON value at every depth or raises, it never returns a container holding a placeholder for an undefined value"},
        "C11.eval.wrapped": {"props": ["C11", "C15"], "text":
            "every way evaluation can fail inside an expression (undefined variable, missing key, wrong type, unknown function, empty selection, index out of range, division by zero) surfaces as an ExpressionEvaluationException of the language, never as another exception type"},
    }
    assumptions = ["BOUNDED: value grammar of %d leaves + nested containers; listed reference forms; listed failure kinds; both languages" % len(LEAVES),
                   "yaql, jinja2, ujson are external: behaviour observed, not proved"]
    trusted = ["CPython", "yaql", "jinja2", "ujson"]

    def splits(self, tier):
        return ["identity", "reference", "failures"]

    def run_split(self, ctx, split):
        def thunk(e):
            if split == "identity":
                for v in values():
                    data = {"x": 1}
                    try:
                        r = expr_base.evaluate(copy.deepcopy(v), data)
                        ok = typed_eq(r, v)
                    except Exception as ex:
                        ok, r = False, repr(ex)
                    ctx.oblige("C16.evaluate.identity", ok, None, {"value": repr(v), "got": repr(r)})
                    try:
                        c = json_util.deepcopy(v)
                        ok = typed_eq(c, v) and (not isinstance(v, (dict, list)) or c is not v)
                    except Exception as ex:
                        ok, c = False, repr(ex)
                    ctx.oblige("C16.deepcopy.exact", ok, None, {"value": repr(v), "got": repr(c)})
            elif split == "reference":
                forms = ["<% ctx().x %>", "<% ctx(x) %>", "<% ctx('x') %>", "{{ ctx().x }}", "{{ ctx('x') }}"]
                for v in values():
                    for f in forms:
                        for wrap in (None, "list", "dict"):
                            data = {"x": copy.deepcopy(v), "other": {"k": [1, 2]}}
                            before = copy.deepcopy(data)
                            stmt = f if wrap is None else ([f] if wrap == "list" else {"k": f})
                            want = v if wrap is None else ([v] if wrap == "list" else {"k": v})
                            try:
                                r = expr_base.evaluate(stmt, data)
                                ok = typed_eq(r, want)
                            except Exception as ex:
                                ok, r = False, repr(ex)
                            ctx.oblige("C16.eval.single_reference_exact", ok, None,
                                       {"value": repr(v), "form": f, "wrap": wrap, "got": repr(r)[:120]})
                            ctx.oblige("C16.eval.pure", typed_eq(data, before), None, {"value": repr(v), "form": f})
                # expressions that try to change what they read: whatever they evaluate to (a value or an
                # evaluation error), the context is left as it was
                for stmt in ("{{ ctx().q.pop(0) }}", "{{ ctx().q.append(9) }}", "{{ ctx().d.update({'k': 1}) }}",
                             "{{ ctx().d.pop('a', 0) }}", "{{ ctx().d.setdefault('z', []) }}", "{{ ctx().q.sort() }}",
                             "<% ctx().q.skip(1) %>", "<% ctx().d.set(k, 1) %>", "<% ctx().d.delete(a) %>", "<% ctx().q + [9] %>"):
                    data = {"q": ["a", "b", "c"], "d": {"a": 1}}
                    before = copy.deepcopy(data)
                    try:
                        r = repr(expr_base.evaluate(stmt, data))
                    except exc.ExpressionEvaluationException as ex:
                        r = type(ex).__name__
                    except Exception as ex:
                        r = "%s: %s" % (type(ex).__name__, ex)
                    ctx.oblige("C16.eval.pure", typed_eq(data, before), None, {"form": stmt, "got": r[:120], "context_after": repr(data)})
            else:
                data = {"d": {"a": 1}, "l": [], "s": "str", "n": 0, "one": 1}
                failing = [
                    "<% ctx().undefined_var %>", "<% ctx(d).missing %>", "<% ctx(s) + 1 %>", "<% no_such_fn(1) %>",
                    "<% ctx(l).first() %>", "<% ctx(l)[3] %>", "<% ctx(one) / ctx(n) %>", "<% ctx(d).a.b.c %>",
                    "<% int(ctx(s)) %>", "<% ctx(l).select($.x).first() %>", "<% ctx(d)[ctx(one)] %>", "<% ctx(d)[ctx(n)] %>",
                    "<% ctx(d).get(5).x %>", "<% dict(a=>1)[ctx(one)] %>",
                    "{{ ctx().undefined_var }}", "{{ ctx('d').missing.deeper }}", "{{ ctx('s') + 1 }}", "{{ no_such_fn(1) }}",
                    "{{ ctx('l')[3] }}", "{{ ctx('one') / ctx('n') }}", "{{ ctx('l') | first | int + ctx('s') }}",
                    "{% raw %}{{ keep }}{% endraw %} and {{ ctx().undefined_var }}",
                    "{% raw %}{{ keep }}{% endraw %} {{ ctx('d').missing.deeper }}",
                ]
                for stmt in failing:
                    got = None
                    try:
                        r = expr_base.evaluate(stmt, copy.deepcopy(data))
                        got = "value:%r" % (r,)
                        ok = True      # evaluating to a value (e.g. jinja undefined -> '') is not a failure
                    except exc.ExpressionEvaluationException as ex:
                        ok, got = True, type(ex).__name__
                    except Exception as ex:
                        ok, got = False, "%s: %s" % (type(ex).__name__, ex)
                    ctx.oblige("C11.eval.wrapped", ok, None, {"expression": stmt, "got": got})
                # a failed lookup inside a list or dict result is a failure too: what evaluate() returns is
                # a JSON value at every depth, never a placeholder for an undefined value
                data2 = {"servers": [{"ip": "10.0.0.1"}, {"name": "no-ip"}], "d": {"a": 1}}
                for stmt in ('{{ ctx("servers") | map(attribute="ip") | list }}', '{{ {"a": ctx("d").a, "b": ctx("d").missing} }}',
                             '{{ [ctx("d").missing] }}', "<% ctx(servers).select($.ip) %>", "<% dict(a => ctx(d).a, b => ctx(d).missing) %>",
                             # views and generators, at the top and inside the result, come back as lists
                             '{{ ctx("d").keys() }}', '{{ ctx("d").items() }}', '{{ {"names": ctx("servers") | map(attribute="name", default="-")} }}',
                             "<% ctx(d).keys() %>", "<% ctx(d).items() %>"):
                    try:
                        r = expr_base.evaluate(stmt, copy.deepcopy(data2))
                        json.dumps(r)
                        ok, got = True, "value:%r" % (r,)
                    except exc.ExpressionEvaluationException as ex:
                        ok, got = True, type(ex).__name__
                    except Exception as ex:
                        ok, got = False, "%s: %s" % (type(ex).__name__, str(ex)[:80])
                    ctx.oblige("C11.eval.no_undefined_in_values", ok, None, {"expression": stmt, "got": got[:160]})
            ctx.canary()

        ctx.eng.explore(thunk)
        ctx.bounded.append({"unit": self.name, "bound": "value grammar / reference forms / failure kinds, split %s" % split})


# ================================================================================================
# inline parameters and shorthands
# ================================================================================================
def render_param(k, v):
    """the documented inline notation of k=v"""
    if v is None:
        return "%s=null" % k
    if isinstance(v, bool):
        return "%s=%s" % (k, "true" if v else "false")
    if isinstance(v, (int, float)):
        return "%s=%r" % (k, v)
    if isinstance(v, dict):
        return "%s='%s'" % (k, json.dumps(v))
    if isinstance(v, str):
        if v.startswith("<%") or v.startswith("{{"):
            return "%s=%s" % (k, v)
        q = '"' if '"' not in v else "'"
        return "%s=%s%s%s" % (k, q, v, q)
    raise ValueError(v)


PARAM_VALUES = [0, 7, -3, 1.5, -0.25, True, False, None, "abc", "with space", "a=b", "x, y", "it's", 'say "hi"',
                "'ok'", "the bosses'", "echo 'hello world'", '"quoted"', "'",
                "UPPER lower", "true", "123", {"a": 1}, {"Name": "Bob", "Tags": ["X", "y"]}, {"nested": {"K": "V"}},
                "<% ctx().x %>", "{{ ctx().x }}", "<% ctx(a) = 1 %>"]


class Shorthands(Unit):
    bounded = True
    name = "X.shorthands"
    functions = ["orquesta.utils.parameters.parse_inline_params", "orquesta.specs.native.v1.models.TaskSpec.__init__",
                 "orquesta.specs.native.v1.models.TaskTransitionSpec.__init__", "orquesta.specs.native.v1.models.WorkflowSpec.__init__"]
    obligations = {
        "C20.params.roundtrip": {"props": ["C20", "C16"], "text":
            "parse_inline_params(name=value ...) yields exactly the name/value pairs written, for numbers, booleans, null, quoted strings, quoted JSON objects (case preserved) and expressions"},
        "C20.action.split": {"props": ["C20"], "text":
            "an action with inline parameters denotes action = the text before the first blank and input = the parsed parameters, exactly as the long form"},
        "C20.publish.parsed": {"props": ["C20"], "text":
            "a publish string denotes the same ordered list of one-key mappings as its long form; an omitted do means continue"},
    }
    assumptions = ["BOUNDED: %d values x 1-3 parameters per string" % len(PARAM_VALUES),
                   "`re` engine semantics are outside the solvers' string theories (DESIGN §4 C20)"]
    trusted = ["CPython re / json"]

    def run_split(self, ctx, split):
        def thunk(e):
            keys = ["a", "b1", "c_d"]
            for v in PARAM_VALUES:
                s = render_param("k", v)
                try:
                    got = args_util.parse_inline_params(s)
                    ok = len(got) == 1 and list(got[0]) == ["k"] and typed_eq(got[0]["k"], v)
                except Exception as ex:
                    ok, got = False, repr(ex)
                ctx.oblige("C20.params.roundtrip", ok, None, {"text": s, "want": repr(v), "got": repr(got)})
            dup = "a=1 b=<% ctx().a %> a=3"
            try:
                got = args_util.parse_inline_params(dup)
                ok = got == [{"a": 1}, {"b": "<% ctx().a %>"}, {"a": 3}]
            except Exception as ex:
                ok, got = False, repr(ex)
            ctx.oblige("C20.params.roundtrip", ok, None, {"text": dup, "got": repr(got)})
            for combo in itertools.combinations(PARAM_VALUES, 2):
                vs = list(combo)
                s = " ".join(render_param(k, v) for k, v in zip(keys, vs))
                try:
                    got = args_util.parse_inline_params(s)
                    want = [{k: v} for k, v in zip(keys, vs)]
                    ok = len(got) == len(want) and all(typed_eq(g, w) for g, w in zip(got, want))
                except Exception as ex:
                    ok, got = False, repr(ex)
                ctx.oblige("C20.params.roundtrip", ok, None, {"text": s, "got": repr(got)})
                try:
                    ts = models.TaskSpec({"action": "core.echo " + s})
                    want_in = {k: v for k, v in zip(keys, vs)}
                    ok = ts.action == "core.echo" and typed_eq(dict(ts.input), want_in)
                    got = (ts.action, ts.input)
                except Exception as ex:
                    ok, got = False, repr(ex)
                ctx.oblige("C20.action.split", ok, None, {"text": s, "got": repr(got)})
                try:
                    tr = models.TaskTransitionSpec({"publish": s})
                    want = [{k: v} for k, v in zip(keys, vs)]
                    ok = isinstance(tr.publish, list) and len(tr.publish) == len(want) and \
                        all(typed_eq(g, w) for g, w in zip(tr.publish, want)) and tr.do == "continue"
                    got = tr.publish
                except Exception as ex:
                    ok, got = False, repr(ex)
                ctx.oblige("C20.publish.parsed", ok, None, {"text": s, "got": repr(got)})
            ctx.canary()

        ctx.eng.explore(thunk)
        ctx.bounded.append({"unit": self.name, "bound": "value grammar x up to 2 parameters"})


# ================================================================================================
# context-variable tracking of inspection
# ================================================================================================
class InspectContext(Unit):
    bounded = True
    name = "X.inspect_context"
    functions = ["orquesta.specs.base.Spec.inspect_context", "orquesta.specs.native.v1.models.TaskMappingSpec.inspect_context",
                 "orquesta.expressions.base.extract_vars"]
    obligations = {
        "C15.ctx.unassigned_reported": {"props": ["C15"], "text":
            "a reference, in a documented form, to a context variable that nothing upstream assigns is reported in every position (input default, vars, task input, publish, output), including an entry that refers to the variable it assigns; a reference to an assigned variable is not reported"},
        "C19.ctx.report_deterministic": {"props": ["C19"], "text":
            "the context report does not depend on the hash seed: entries are emitted in a total order"},
    }
    assumptions = ["BOUNDED: positions x {assigned upstream, unassigned, self-reference} x both languages"]
    trusted = ["CPython", "yaql/jinja parsers (variable extraction by regex)"]

    def run_split(self, ctx, split):
        def thunk(e):
            refs = {"yaql": "<% ctx().{v} %>", "yaql_fn": "<% ctx({v}) %>", "jinja": "{{{{ ctx().{v} }}}}",
                    # a reference nested inside another reference (index / argument position)
                    "yaql_nested": "<% ctx(known)[ctx({v})] %>", "yaql_nested_dot": "<% ctx().known[ctx().{v}] %>",
                    "jinja_nested": "{{{{ ctx('known')[ctx('{v}')] }}}}",
                    # an equality in the expression (reads like an inline parameter name=value)
                    "yaql_equality": "<% ctx().{v}='fast' or ctx(known)=1 %>", "yaql_equality_after": "<% ctx(known)=0 and ctx().{v} %>"}
            for lang, tmpl in refs.items():
                for case in ("assigned", "unassigned", "self"):
                    for pos in ("vars", "task_input", "publish", "output", "retry_when", "retry_count", "task_delay", "with_items"):
                        var = "acc" if case == "self" else ("known" if case == "assigned" else "ghost")
                        ref = tmpl.format(v=var)
                        d = {"version": 1.0, "input": ["known"], "tasks": {"t1": {"action": "core.noop"}}}
                        if pos == "vars":
                            d["vars"] = [{("acc" if case == "self" else "out"): ref}]
                        elif pos == "task_input":
                            if case == "self":
                                continue
                            d["tasks"]["t1"]["input"] = {"p": ref}
                        elif pos in ("retry_when", "retry_count", "task_delay", "with_items"):
                            if case == "self":
                                continue
                            if pos == "retry_when":
                                d["tasks"]["t1"]["retry"] = {"when": ref, "count": 1}
                            elif pos == "retry_count":
                                d["tasks"]["t1"]["retry"] = {"count": ref}
                            elif pos == "task_delay":
                                d["tasks"]["t1"]["delay"] = ref
                            else:
                                d["tasks"]["t1"]["with"] = {"items": ref}
                        elif pos == "publish":
                            d["tasks"]["t1"]["next"] = [{"publish": [{("acc" if case == "self" else "out"): ref}], "do": "t2"}]
                            d["tasks"]["t2"] = {"action": "core.noop"}
                        else:
                            d["output"] = [{("acc" if case == "self" else "out"): ref}]
                        try:
                            rep = native_specs.WorkflowSpec(d).inspect()
                            msgs = [x["message"] for x in rep.get("context", [])]
                            reported = any(('"%s"' % var) in m for m in msgs)
                            ok = reported == (case != "assigned")
                        except Exception as ex:
                            ok, msgs = False, repr(ex)
                        ctx.oblige("C15.ctx.unassigned_reported", ok, None,
                                   {"language": lang, "case": case, "position": pos, "report": msgs})
            # a task reached by two transitions, only one of which publishes the variable it reads: unassigned
            # on one executable path, whichever transition is examined first
            for order in (0, 1):
                trs = [{"publish": [{"x": 1}], "do": "t3"}, {"when": "<% failed() %>", "do": "t3"}]
                if order:
                    trs = list(reversed(trs))
                d = {"version": 1.0, "tasks": {"t1": {"action": "core.noop", "next": trs},
                                               "t3": {"action": "core.echo", "input": {"m": "<% ctx().x %>"}}}}
                d2 = {"version": 1.0, "tasks": {"t1": {"action": "core.noop", "next": [{"do": "a, b"}]},
                                                "a": {"action": "core.noop", "next": [{"publish": [{"x": 1}], "do": "t3"}] if not order else [{"do": "t3"}]},
                                                "b": {"action": "core.noop", "next": [{"do": "t3"}] if not order else [{"publish": [{"x": 1}], "do": "t3"}]},
                                                "t3": {"action": "core.echo", "input": {"m": "<% ctx().x %>"}}}}
                for k, dd in enumerate((d, d2)):
                    try:
                        rep = native_specs.WorkflowSpec(dd).inspect()
                        msgs = [x["message"] for x in rep.get("context", [])]
                        ok = any('"x"' in m for m in msgs)
                    except Exception as ex:
                        ok, msgs = False, repr(ex)
                    ctx.oblige("C15.ctx.unassigned_reported", ok, None,
                               {"case": "two inbound transitions, one publishes", "shape": k, "publisher_first": not order, "report": msgs})
            # one property referencing the same unassigned variables from several expressions
            d = {"version": 1.0, "tasks": {"t1": {"action": "core.noop", "input": {
                "p": "<% ctx().zeta %> {{ ctx().alpha }} <% ctx().mid %> {{ ctx().zeta }} <% ctx().alpha %>"}}}}
            rep = native_specs.WorkflowSpec(d).inspect()
            msgs = [x["message"] for x in rep.get("context", [])]
            names = [m.split('"')[1] for m in msgs]
            ctx.oblige("C19.ctx.report_deterministic", names == sorted(names) or names == sorted(names, key=lambda n: (n,)), None,
                       {"report": msgs})
            ctx.canary()

        ctx.eng.explore(thunk)
        ctx.bounded.append({"unit": self.name, "bound": "positions x cases x languages"})


# ================================================================================================
# hash-seed independence at set-iteration sites (engine model: a set iterates in ARBITRARY order)
# ================================================================================================
class OrderIndependence(Unit):
    bounded = True
    name = "X.order_independence"
    functions = ["orquesta.expressions.base.extract_vars", "orquesta.expressions.yql.YAQLEvaluator.extract_vars",
                 "orquesta.expressions.jinja.JinjaEvaluator.extract_vars"]
    obligations = {
        "C19.perm.evaluate": {"props": ["C19", "C11"], "text":
            "evaluating a string with several failing expressions records the same error whatever the iteration order of any internal set"},
        "C19.perm.extract_vars": {"props": ["C19"], "text":
            "extract_vars returns the same list for every iteration order of its internal sets (the engine explores all orders for <= 3 elements, rotations and reversal beyond): the inspection report cannot depend on PYTHONHASHSEED through it"},
    }
    assumptions = ["BOUNDED inputs: six statements with variable names tied across languages and across several expressions of one language; set iteration modelled as arbitrary permutation (exhaustive for <= 3 elements)"]
    trusted = ["pyvc interpreter (set-order model)", "re"]

    def run_split(self, ctx, split):
        from orquesta.expressions import yql, jinja
        statements = [
            "<% ctx().zeta %> {{ ctx().zeta }}",
            "{{ ctx().a }} <% ctx().a %> <% ctx().b %>",
            {"p": "<% ctx().x %>", "q": "{{ ctx().x }}"},
            ["<% ctx().m %> <% ctx().n %>", "{{ ctx().m }}"],
            # one variable referred to from several values in the same language: entries tied on name and type
            {"p": "<% ctx().x %>", "q": "<% ctx().x + 1 %>", "r": "<% ctx().x * 2 %>"},
            ["{{ ctx().y }}", "{{ ctx().y + 1 }}", "<% ctx().y %>"],
        ]
        for stmt in statements:
            outs = []

            def thunk(e, stmt=stmt):
                e.overrides[expr_base.get_evaluators] = lambda eng: expr_base.get_evaluators()   # plugin registry: native
                r = e.call(expr_base.extract_vars, [stmt], {})
                outs.append(list(r))
                return r

            ctx.eng.explore(thunk)
            same = all(o == outs[0] for o in outs)
            self._oblige_after(ctx, "C19.perm.extract_vars", same,
                               {"statement": repr(stmt), "orders_explored": len(outs),
                                "distinct_results": len({repr(o) for o in outs})})
        # a string with two failing YAQL expressions: the recorded error must not depend on a set order
        data = {"d": {"a": 1}}
        for stmt in ["<% ctx(d).hostname %> and <% ctx(d).address %>", "<% ctx(d).a %> <% ctx(d).zz %> <% ctx(d).yy %>"]:
            outs = []

            def thunk2(e, stmt=stmt):
                e.overrides[expr_base.get_evaluators] = lambda eng: expr_base.get_evaluators()
                from pyvc.engine import Raised as _R
                try:
                    r = e.call(expr_base.evaluate, [stmt, dict(data)], {})
                    outs.append(("value", repr(r)))
                except _R as rr:
                    outs.append(("raised", rr.cls.__name__, str(rr.exc_args)))
                return None

            ctx.eng.explore(thunk2)
            self._oblige_after(ctx, "C19.perm.evaluate", all(o == outs[0] for o in outs),
                               {"statement": stmt, "orders_explored": len(outs), "distinct_results": len(set(outs))})
        ctx.bounded.append({"unit": self.name, "bound": "6 statements + 2 evaluations, all set orders"})

    def _oblige_after(self, ctx, name, ok, info):
        # evaluated outside a path: record directly (concrete verdict)
        def thunk(e):
            ctx.oblige(name, ok, None, info)
            ctx.canary()
        ctx.eng.explore(thunk)


# ================================================================================================
# normal forms of the transition shorthand: proof over arbitrary (opaque) publish / do values
# ================================================================================================
class TransitionNormalForm(Unit):
    name = "X.transition_normal_form"
    functions = ["orquesta.specs.native.v1.models.TaskTransitionSpec.__init__", "orquesta.specs.base.Spec.__getattr__"]
    obligations = {
        "C20.do.default": {"props": ["C20"], "text":
            "for every transition: a missing or empty `do` denotes `continue`; any other `do` value is left exactly as written; `when` is never touched"},
        "C20.publish.normal_form": {"props": ["C20"], "text":
            "for every transition: a publish given as a string is replaced by exactly parse_inline_params of that string; a publish given as a list is left exactly as written"},
    }
    assumptions = [
        "Spec.__init__ (schema bookkeeping) is abstracted: it stores the definition dict as self.spec and the class schemas; Spec.__getattr__ is interpreted from source",
        "parse_inline_params is used through its bounded contract (C20.params.roundtrip); values of when/do/publish are opaque with arbitrary truthiness",
    ]
    trusted = ["z3 5.1", "pyvc interpreter"]

    def splits(self, tier):
        return [(p, d) for p in ("absent", "string", "empty_string", "list") for d in ("absent", "value")]

    def run_split(self, ctx, split):
        pk, dk = split
        from orquesta.specs import base as spec_base
        from pyvc import sym as S

        def thunk(e):
            spec = {"when": "W"}
            parsed = []
            listval = [{"x": 1}]
            if pk == "string":
                spec["publish"] = "a=1 b=2"
            elif pk == "empty_string":
                spec["publish"] = ""
            elif pk == "list":
                spec["publish"] = listval
            do_truthy = None
            doval = S.mk_val("do_value")
            if dk == "value":
                spec["do"] = doval
                do_truthy = e.register_input("do_truthy", S.SBool(S.truthy_val(doval.z)))

            def spec_init(eng, self_, sp, name=None, member=False):
                object.__setattr__(self_, "spec", sp)
                object.__setattr__(self_, "_schema", models.TaskTransitionSpec._schema)
                object.__setattr__(self_, "_meta_schema", {"type": "object", "properties": {}})

            def pip(eng, s, preserve_order=True):
                parsed.append(s)
                return ["PARSED", s]

            e.overrides[spec_base.Spec.__init__] = spec_init
            e.overrides[args_util.parse_inline_params] = pip
            obj = object.__new__(models.TaskTransitionSpec)
            e.call(models.TaskTransitionSpec.__init__, [obj, spec], {})
            d = obj.__dict__
            info = {"publish": pk, "do": dk}
            # do
            if dk == "absent":
                ctx.oblige("C20.do.default", d.get("do") == "continue" and obj.spec.get("when") == "W", None, info)
            else:
                set_do = "do" in d
                ctx.oblige("C20.do.default", z3.And(
                    z3.Implies(do_truthy.z, z3.BoolVal(not set_do and obj.spec["do"] is doval)),
                    z3.Implies(z3.Not(do_truthy.z), z3.BoolVal(set_do and d.get("do") == "continue"))), None, info)
            # publish
            if pk == "string":
                ctx.oblige("C20.publish.normal_form", parsed == ["a=1 b=2"] and d.get("publish") == ["PARSED", "a=1 b=2"], None, info)
            elif pk == "list":
                ctx.oblige("C20.publish.normal_form", not parsed and "publish" not in d and obj.spec["publish"] is listval, None, info)
            else:
                ctx.oblige("C20.publish.normal_form", not parsed and "publish" not in d, None, info)
            ctx.canary()

        ctx.eng.explore(thunk)


# ================================================================================================
# workflow input / vars / output rendering
# ================================================================================================
FALSY_AND_OTHERS = [False, 0, 0.0, "", [], {}, None, True, 1, "x", [0], {"k": False}]


class WorkflowRendering(Unit):
    bounded = True
    name = "X.workflow_rendering"
    functions = ["orquesta.specs.native.v1.models.WorkflowSpec.render_input",
                 "orquesta.specs.native.v1.models.WorkflowSpec.render_vars",
                 "orquesta.specs.native.v1.models.WorkflowSpec.render_output",
                 "orquesta.specs.native.v1.models.TaskSpec.finalize_context"]
    obligations = {
        "C16.render_input.exact": {"props": ["C16", "C11"], "text":
            "a runtime input is passed through exactly (type and value) whether or not the definition declares a default for it - in particular a falsy value (false, 0, '', [], {}, null) is not replaced by the default; a missing input gets the default; rendering errors are returned, not raised"},
        "C11.render.any_error_returned": {"props": ["C11"], "text":
            "whatever exception the evaluation of an input default, a var, an output entry or a publish raises - an evaluation exception of the language or anything else (an unhashable dict key, a template error in the text a raw block leaves behind) - it is returned in the error list and never raised out of render_input / render_vars / render_output / finalize_context"},
        "C16.render_vars_output.exact": {"props": ["C16", "C11", "C06"], "text":
            "vars and output entries are rendered in order against a rolling context, values type-exact, errors collected and returned"},
    }
    assumptions = ["BOUNDED: %d runtime values x {with default, without default}; yaql/jinja external" % len(FALSY_AND_OTHERS)]
    trusted = ["CPython", "yaql", "jinja2"]

    def run_split(self, ctx, split):
        def thunk(e):
            for v in FALSY_AND_OTHERS:
                for with_default in (True, False):
                    d = {"version": 1.0, "input": [{"p": "DEFAULT"}] if with_default else ["p"],
                         "tasks": {"t1": {"action": "core.noop"}}}
                    try:
                        spec = native_specs.WorkflowSpec(d)
                        rendered, errors = spec.render_input({"p": copy.deepcopy(v)}, {})
                        ok = not errors and "p" in rendered and typed_eq(rendered["p"], v)
                        got = (rendered, [str(x) for x in errors])
                    except Exception as ex:
                        ok, got = False, repr(ex)
                    ctx.oblige("C16.render_input.exact", ok, None, {"value": repr(v), "default_declared": with_default, "got": repr(got)[:200]})
            spec = native_specs.WorkflowSpec({"version": 1.0, "input": [{"p": "DEFAULT"}, "q"], "tasks": {"t1": {"action": "core.noop"}}})
            rendered, errors = spec.render_input({}, {})
            ctx.oblige("C16.render_input.exact", rendered.get("p") == "DEFAULT" and not errors, None, {"case": "missing input gets default"})
            spec = native_specs.WorkflowSpec({"version": 1.0, "input": [{"p": "<% ctx().nope %>"}], "tasks": {"t1": {"action": "core.noop"}}})
            try:
                rendered, errors = spec.render_input({}, {})
                ok = len(errors) == 1 and isinstance(errors[0], exc.ExpressionEvaluationException)
            except Exception as ex:
                ok = False
            ctx.oblige("C16.render_input.exact", ok, None, {"case": "default expression fails: error returned"})
            # an evaluation that fails with something else than an evaluation exception of the language
            # (an unhashable dict key, a template error in what a raw block leaves behind) is returned as
            # an error too, from every rendering position of the definition
            odd = [{"<% ctx().k %>": 1}, "{% raw %}{{ x }}{% endraw %} {{ ctx().t }}"]
            data = {"k": ["a", "b"], "t": "50{% off"}
            for bad in odd:
                d = {"version": 1.0, "input": [{"p": bad}], "vars": [{"v": bad}], "output": [{"o": bad}],
                     "tasks": {"t1": {"action": "core.noop", "next": [{"publish": [{"x": bad}], "do": "t2"}]}, "t2": {"action": "core.noop"}}}
                spec = native_specs.WorkflowSpec(d)
                for pos, call in (("input", lambda: spec.render_input({}, dict(data))), ("vars", lambda: spec.render_vars(dict(data))),
                                  ("output", lambda: spec.render_output(dict(data))),
                                  ("publish", lambda: spec.tasks.get_task("t1").finalize_context(
                                      "t2", ("t1", "t2", 0, {"ref": 0, "criteria": []}), dict(data))[1:])):
                    try:
                        r = call()
                        errs = r[-1]
                        ok, got = len(errs) == 1, [type(x).__name__ for x in errs]
                    except Exception as ex:
                        ok, got = False, "escaped: %s: %s" % (type(ex).__name__, ex)
                    ctx.oblige("C11.render.any_error_returned", ok, None, {"position": pos, "value": repr(bad), "got": repr(got)[:160]})
            for v in FALSY_AND_OTHERS:
                d = {"version": 1.0, "vars": [{"a": "<% ctx().src %>"}, {"b": "<% ctx().a %>"}],
                     "output": [{"o1": "<% ctx().src %>"}, {"o2": "<% ctx().o1 %>"}, {"bad": "<% ctx().nope %>"}],
                     "tasks": {"t1": {"action": "core.noop"}}}
                try:
                    spec = native_specs.WorkflowSpec(d)
                    rv, ev = spec.render_vars({"src": copy.deepcopy(v)})
                    ro, eo = spec.render_output({"src": copy.deepcopy(v)})
                    ok = not ev and typed_eq(rv.get("a"), v) and typed_eq(rv.get("b"), v) and typed_eq(ro.get("o1"), v) \
                        and typed_eq(ro.get("o2"), v) and len(eo) == 1 and "bad" not in ro
                    got = (rv, ro, [str(x)[:40] for x in eo])
                except Exception as ex:
                    ok, got = False, repr(ex)
                ctx.oblige("C16.render_vars_output.exact", ok, None, {"value": repr(v), "got": repr(got)[:200]})
            ctx.canary()

        ctx.eng.explore(thunk)
        ctx.bounded.append({"unit": self.name, "bound": "value list x default/no default"})
