"""Layer C: request_workflow_rerun / _request_task_rerun / _collapse_task_rerun_requests /
WorkflowState.get_task_sequence on a two-route history (a -> b -> c on routes 0 and 1) plus a
with-items variant.  BOUNDED shape; statuses, term flags and item statuses symbolic."""
import z3

from orquesta import conducting, constants, exceptions as exc, requests
from orquesta.utils import jsonify as json_util
from contracts import specconst as st

from pyvc import sym as S
from pyvc.engine import AbstractObj, Raised, Stub
from pyvc.framework import Unit
from pyvc.sym import INTERN

from . import cbase


def zb(x):
    return x if not isinstance(x, bool) else z3.BoolVal(x)


class Rerun(Unit):
    bounded = True
    name = "C.request_workflow_rerun"
    functions = [
        "orquesta.conducting.WorkflowConductor.request_workflow_rerun",
        "orquesta.conducting.WorkflowConductor._request_task_rerun",
        "orquesta.conducting.WorkflowConductor._collapse_task_rerun_requests",
        "orquesta.conducting.WorkflowState.get_task_sequence",
        "orquesta.conducting.WorkflowState.get_terminal_tasks",
        "orquesta.conducting.WorkflowState.get_task",
    ]
    obligations = {
        "C17.rerun.rejects_active": {"props": ["C17"], "text":
            "a rerun of a workflow that is not completed is rejected and changes nothing"},
        "C17.rerun.rejects_unknown": {"props": ["C17"], "text":
            "a rerun request naming a task execution that does not exist is rejected and changes nothing"},
        "C17.rerun.resuming": {"props": ["C17"], "text":
            "an accepted rerun sets the workflow to resuming, resets the output and records one rerun entry"},
        "C17.rerun.exact": {"props": ["C17", "C18"], "text":
            "exactly the requested executions (default: abended terminal ones) get a fresh record and exactly one ready staged entry - also when the execution was still staged, waiting to be retried, when the workflow ended; earlier records are only appended to; executions on other routes keep their terminal flag and everything else"},
        "C17.rerun.downstream_reopened": {"props": ["C17"], "text":
            "the executions that followed a rerun execution on the same route are no longer terminal (their old contexts must not reach the output of the rerun), and the rerun execution's old record is no longer terminal either"},
        "C17.rerun.items": {"props": ["C17", "C03", "C12"], "text":
            "a with-items candidate keeps its record and staged entry; its abended items (all items with reset_items) become unset, the others are untouched"},
        "C17.rerun.not_stuck": {"props": ["C17", "C03"], "text":
            "an accepted rerun leaves a ready, not completed staged entry with something to offer (or an active task)"},
        "C18.rerun.sep": {"props": ["C18", "C05"], "text":
            "the fresh record, the fresh staged entry and the old record share no context-pointer list or back-reference dict"},
    }
    assumptions = [
        "BOUNDED: history a->b->c on two routes with symbolic statuses / term flags; with-items variant with 3 symbolic items; requests: none, one, two (incl. a downstream one), unknown",
        "json_util.deepcopy: fresh structural copy; graph.has_task true for known tasks; no retry policies",
    ]
    trusted = ["z3 5.1", "pyvc interpreter", "TaskRerunRequest objects built natively"]

    def splits(self, tier):
        reqs = ["default", "default_plain", "b0", "b0+c0", "b0+b1", "zz", "w", "w_reset"]
        wf = [st.FAILED, st.SUCCEEDED, st.CANCELED, st.RUNNING, st.PAUSED]
        return [(w, r) for w in wf for r in reqs]

    def run_split(self, ctx, split):
        wf_c, req = split
        items_mode = req in ("w", "w_reset") or req == "default"
        first = [True]

        def thunk(e):
            e.overrides[json_util.deepcopy] = cbase.deepcopy_model
            e.register_input("wf", wf_c)
            e.register_input("req", req)
            # b on route 0: abended, succeeded, or still waiting to be retried (and therefore still
            # staged) when the workflow ended
            sb = [st.FAILED, st.SUCCEEDED, st.EXPIRED, st.RETRYING][e.choose(4)]
            e.register_input("status_b0", sb)
            term_b0 = e.branch(e.register_input("term_b0", S.mk_bool("term_b0")).z)
            seq = [
                {"id": "a", "route": 0, "ctxs": {"in": [0]}, "prev": {}, "next": {"b__t0": True}, "status": st.SUCCEEDED},
                {"id": "a", "route": 1, "ctxs": {"in": [0]}, "prev": {}, "next": {"b__t0": True}, "status": st.SUCCEEDED},
                {"id": "b", "route": 0, "ctxs": {"in": [0, 1]}, "prev": {"a__t0": 0}, "next": {"c__t0": sb == st.SUCCEEDED}, "status": sb},
                {"id": "b", "route": 1, "ctxs": {"in": [0, 2]}, "prev": {"a__t0": 1}, "next": {"c__t0": True}, "status": st.SUCCEEDED},
                {"id": "c", "route": 1, "ctxs": {"in": [0, 2]}, "prev": {"b__t0": 3}, "next": {}, "status": st.SUCCEEDED, "term": True},
            ]
            if term_b0:
                seq[2]["term"] = True
            tasks = {"a__r0": 0, "a__r1": 1, "b__r0": 2, "b__r1": 3, "c__r1": 4}
            if sb == st.SUCCEEDED:
                seq.append({"id": "c", "route": 0, "ctxs": {"in": [0, 1]}, "prev": {"b__t0": 2}, "next": {},
                            "status": [st.FAILED, st.SUCCEEDED][e.choose(2)], "term": True})
                tasks["c__r0"] = 5
            staged = []
            if sb == st.RETRYING:
                seq[2]["retry"] = {"when": None, "count": 2, "delay": 3, "tally": 1}
                staged.append({"id": "b", "route": 0, "ctxs": {"in": [0, 1]}, "prev": {"a__t0": 0}, "ready": True,
                               "retry": {"when": None, "count": 2, "delay": 3, "tally": 1}})
            item_sts = None
            if items_mode:
                item_sts = [e.register_input("item%d" % i, S.mk_const("item%d" % i,
                            [st.SUCCEEDED, st.FAILED, st.EXPIRED, st.ABANDONED, st.CANCELED])) for i in range(3)]
                for x in item_sts:
                    e.assume(x.dom_constraint())
                any_abended = z3.Or([z3.Or([x.z == INTERN.id_of(a) for a in st.ABENDED_STATUSES]) for x in item_sts])
                e.assume(any_abended)   # the with-items task failed because an item abended
                seq.append({"id": "w", "route": 0, "ctxs": {"in": [0]}, "prev": {"a__t0": 0}, "next": {},
                            "status": st.FAILED, "term": True})
                tasks["w__r0"] = len(seq) - 1
                # what followed the failed with-items execution (its failure handler), finished and terminal
                seq.append({"id": "h", "route": 0, "ctxs": {"in": [0]}, "prev": {"w__t0": len(seq) - 1}, "next": {},
                            "status": st.SUCCEEDED, "term": True})
                tasks["h__r0"] = len(seq) - 1
                staged.append({"id": "w", "route": 0, "ctxs": {"in": [0]}, "prev": {"a__t0": 0}, "ready": True,
                               "completed": True, "items": [{"status": x} for x in item_sts]})
            errors = [{"type": "error", "message": "m", "task_id": "b"}, {"type": "error", "message": "o", "task_id": "zz9"}]

            def has_items(x):
                return x == "w"
            spec = AbstractObj("spec", tasks=AbstractObj("spec.tasks", get_task=Stub(
                "get_task", lambda eng, x: AbstractObj("ts_" + x, has_items=Stub("has_items", lambda en: has_items(x))))))
            graph = AbstractObj("graph", has_task=Stub("has_task", lambda eng, x: True),
                                task_has_retry=Stub("task_has_retry", lambda eng, x: False))
            c, ws = cbase.new_conductor(wf_c, staged=staged, sequence=seq, tasks=tasks, graph=graph, spec=spec,
                                        errors=errors, outputs={"o": 1})
            snap_seq = cbase.snapshot(seq)
            snap_staged = cbase.snapshot(staged)
            snap_tasks = dict(tasks)
            n0 = len(seq)
            reqs = None
            R = requests.TaskRerunRequest.new
            if req == "b0":
                reqs = [R("b", 0)]
            elif req == "b0+c0":
                reqs = [R("b", 0), R("c", 0)] if "c__r0" in tasks else [R("b", 0)]
            elif req == "b0+b1":
                reqs = [R("b", 0), R("b", 1)]
            elif req == "zz":
                reqs = [R("zz", 0)]
            elif req == "w":
                reqs = [R("w", 0)]
            elif req == "w_reset":
                reqs = [R("w", 0, reset_items=True)]
            raised = None
            try:
                e.call(conducting.WorkflowConductor.request_workflow_rerun, [c], {"task_requests": reqs})
            except Raised as r:
                raised = r
            if first[0]:
                ctx.canary()
                first[0] = False
            info = {"wf": wf_c, "request": req, "status_b0": sb, "term_b0": term_b0, "raised": repr(raised) if raised else None}
            unchanged = z3.And(zb(cbase.same_structure(e, snap_seq, seq)), zb(cbase.same_structure(e, snap_staged, staged)),
                               z3.BoolVal(ws.status == wf_c and tasks == snap_tasks and ws.reruns == [] and c._outputs == {"o": 1}))
            completed = wf_c in st.COMPLETED_STATUSES
            if not completed:
                ctx.oblige("C17.rerun.rejects_active", z3.And(z3.BoolVal(
                    raised is not None and raised.cls is exc.WorkflowIsActiveAndNotRerunableError), unchanged), None, info)
                return
            ctx.oblige("C17.rerun.rejects_active", not (raised is not None and raised.cls is exc.WorkflowIsActiveAndNotRerunableError), None, info)
            if req == "zz":
                ctx.oblige("C17.rerun.rejects_unknown", z3.And(z3.BoolVal(
                    raised is not None and raised.cls is exc.InvalidTaskRerunRequest), unchanged), None, info)
                return
            ctx.oblige("C17.rerun.rejects_unknown", raised is None, None, info)
            if raised is not None:
                return
            ctx.oblige("C17.rerun.resuming", ws.status == st.RESUMING and c._outputs is None and len(ws.reruns) == 1, None, info)
            # which executions are the candidates
            if req in ("default", "default_plain"):
                cand = [(r["id"], r["route"]) for r in snap_seq if r.get("term") and r.get("status") in st.ABENDED_STATUSES]
            elif req == "b0+c0":
                cand = [("b", 0)]          # c r0 is downstream of b r0: collapsed
            else:
                cand = [(q.task_id, q.route) for q in reqs]
            plain = [x for x in cand if x[0] != "w"]
            new_recs = seq[n0:]
            ok = len(new_recs) == len(plain) and sorted((r["id"], r["route"]) for r in new_recs) == sorted(plain)
            for (tid, rt) in plain:
                ents = [x for x in staged if x["id"] == tid and x["route"] == rt]
                ok = ok and len(ents) == 1 and ents[0]["ready"] is True and "completed" not in ents[0] and "items" not in ents[0]
                ok = ok and tasks.get("%s__r%d" % (tid, rt), -1) >= n0
            # nothing else is staged by the request: any other entry was staged before and is left as it was
            pre_keys = [(x["id"], x["route"]) for x in snap_staged]
            ok = ok and all((x["id"], x["route"]) in plain or x["id"] == "w" or (x["id"], x["route"]) in pre_keys for x in staged)
            # earlier records only lose `term` (on the rerun executions and their downstream on the same route)
            frame = True
            downstream = set()
            if ("b", 0) in cand:
                downstream.add(("c", 0))
            if ("b", 1) in cand:
                downstream.add(("c", 1))
            if ("w", 0) in cand:
                downstream.add(("h", 0))
            for i, r0 in enumerate(snap_seq):
                keep_term = (r0["id"], r0["route"]) not in set(cand) | downstream
                a = {k: v for k, v in seq[i].items() if k != "term"}
                b = {k: v for k, v in r0.items() if k != "term"}
                same = cbase.same_structure(e, a, b)
                frame = z3.And(zb(frame), zb(same))
                if keep_term and not (r0.get("term") and any(v is True for v in r0["next"].values())):
                    frame = z3.And(zb(frame), z3.BoolVal(seq[i].get("term") == r0.get("term")))
                if seq[i] is not (seq[i]):
                    frame = False
            ctx.oblige("C17.rerun.exact", z3.And(z3.BoolVal(ok), zb(frame)), None, info)
            reopened = True
            for i, r0 in enumerate(snap_seq):
                if (r0["id"], r0["route"]) in (set(cand) | downstream):
                    reopened = reopened and "term" not in seq[i]
            ctx.oblige("C17.rerun.downstream_reopened", reopened, None, info)
            # separation
            sep = True
            for r in new_recs:
                old = snap_seq[snap_tasks["%s__r%d" % (r["id"], r["route"])]]
                oldrec = seq[snap_tasks["%s__r%d" % (r["id"], r["route"])]]
                ent = [x for x in staged if x["id"] == r["id"] and x["route"] == r["route"]][0]
                lists = [r["ctxs"]["in"], ent["ctxs"]["in"], oldrec["ctxs"]["in"]]
                dicts = [r["prev"], ent["prev"], oldrec["prev"]]
                sep = sep and len({id(x) for x in lists}) == 3 and len({id(x) for x in dicts}) == 3
            ctx.oblige("C18.rerun.sep", sep, None, info)
            # with-items
            if ("w", 0) in cand:
                ent = [x for x in staged if x["id"] == "w"]
                okw = len(ent) == 1 and "completed" not in ent[0] and not [r for r in new_recs if r["id"] == "w"]
                cl = [z3.BoolVal(bool(okw))]
                if okw:
                    for i, it in enumerate(ent[0]["items"]):
                        was = item_sts[i]
                        ab = z3.Or([was.z == INTERN.id_of(a) for a in st.ABENDED_STATUSES])
                        now = it["status"]
                        nz = now.z if isinstance(now, S.SConst) else z3.IntVal(INTERN.id_of(now))
                        if req == "w_reset":
                            cl.append(nz == INTERN.id_of(st.UNSET))
                        else:
                            cl.append(z3.If(ab, nz == INTERN.id_of(st.UNSET), nz == was.z))
                ctx.oblige("C17.rerun.items", z3.And(cl), None, info)
            else:
                ctx.oblige("C17.rerun.items", True, None, info)
            # not stuck
            offers = []
            for x in staged:
                rdy = x.get("ready") is True and not x.get("completed", False)
                if "items" in x:
                    any_unset = z3.Or([(it["status"].z if isinstance(it["status"], S.SConst) else
                                        z3.IntVal(INTERN.id_of(it["status"]))) == INTERN.id_of(st.UNSET) for it in x["items"]])
                    offers.append(z3.And(z3.BoolVal(bool(rdy)), any_unset))
                else:
                    offers.append(z3.BoolVal(bool(rdy)))
            ctx.oblige("C17.rerun.not_stuck", z3.Or(offers) if offers else z3.BoolVal(False),
                       {"no_candidates": not cand}, info)

        ctx.eng.explore(thunk)
        ctx.bounded.append({"unit": self.name, "bound": "two-route a->b->c history, 3 items"})


class RerunRejects(Unit):
    """Proof (arbitrary state): the two rejection paths of request_workflow_rerun touch nothing."""
    name = "C.request_workflow_rerun.rejects"
    functions = ["orquesta.conducting.WorkflowConductor.request_workflow_rerun"]
    obligations = {
        "C17.rerun.rejects_active_any_state": {"props": ["C17"], "text":
            "for every workflow status that is not completed and every state: WorkflowIsActiveAndNotRerunableError is raised and nothing has been written or called before it"},
        "C17.rerun.rejects_unknown_any_state": {"props": ["C17"], "text":
            "for every completed status and every state: if some requested task execution is not in the pointer map, InvalidTaskRerunRequest is raised before anything is written"},
    }
    assumptions = ["the state is abstract: only the status and pointer-map membership (symbolic per request) are readable; any other access is reported as undecided, any write is recorded"]
    trusted = ["z3 5.1", "pyvc interpreter"]

    def splits(self, tier):
        return [(s, n) for s in st.ALL_STATUSES for n in (0, 1, 2)]

    def run_split(self, ctx, split):
        status_c, nreq = split

        def thunk(e):
            e.register_input("status", status_c)
            known = [e.register_input("known%d" % i, S.mk_bool("known%d" % i)) for i in range(nreq)]
            reqs = [requests.TaskRerunRequest.new("task%d" % i, 0) for i in range(nreq)]
            writes = []

            def contains(eng, key):
                for i, r in enumerate(reqs):
                    if key == r.task_state_entry_id:
                        return known[i]
                raise S.Unsupported("membership of an unrelated key")

            tasks = AbstractObj("tasks", __contains__=Stub("contains", contains))
            ws = AbstractObj("workflow_state", status=status_c, tasks=tasks)
            c = object.__new__(conducting.WorkflowConductor)
            c.__dict__.update(dict(_workflow_state=ws, _outputs="OUT", _errors="ERR", spec=None, _graph=None))
            raised = None
            beyond = False
            try:
                e.call(conducting.WorkflowConductor.request_workflow_rerun, [c], {"task_requests": reqs})
            except Raised as r:
                raised = r
            except S.Unsupported:
                beyond = True     # past both rejection points: the abstract state is not readable there
            untouched = not [t for t in e.path.trace if t[0] in ("setattr", "setitem", "list_append", "dict_pop", "list_remove")] \
                and c._outputs == "OUT" and c._errors == "ERR"
            info = {"status": status_c, "requests": nreq}
            if status_c not in st.COMPLETED_STATUSES:
                ctx.oblige("C17.rerun.rejects_active_any_state",
                           raised is not None and raised.cls is exc.WorkflowIsActiveAndNotRerunableError and untouched, None, info)
            else:
                some_unknown = z3.Or([z3.Not(k.z) for k in known]) if known else z3.BoolVal(False)
                got = raised is not None and raised.cls is exc.InvalidTaskRerunRequest
                ctx.oblige("C17.rerun.rejects_unknown_any_state",
                           z3.And(z3.Implies(some_unknown, z3.BoolVal(got and untouched and not beyond)),
                                  z3.Implies(z3.BoolVal(got), some_unknown)), None, info)
            ctx.canary()

        ctx.eng.explore(thunk)


# ================================================================================================
# get_task_sequence / _collapse_task_rerun_requests against their specification functions
# ================================================================================================
def _spec_descendants(sequence, idx):
    """record idx, then the records that followed an execution of the same task on the same route
    (a task is identified by id and route: in a loop every iteration's successors count), transitively"""
    seen, todo = [idx], [(sequence[idx]["id"], sequence[idx]["route"])]
    done = set()
    while todo:
        key = todo.pop(0)
        if key in done:
            continue
        done.add(key)
        for i, t in enumerate(sequence):
            if any((sequence[p]["id"], sequence[p]["route"]) == key for p in t["prev"].values()):
                if i not in seen:
                    seen.append(i)
                todo.append((t["id"], t["route"]))
    return seen


def _spec_collapse(sequence, req_idx):
    """req_idx: {key: record index}.  A request is kept unless its record follows from another
    requested record; of two that follow from each other (a loop) the earlier record is kept."""
    desc = {k: set(_spec_descendants(sequence, i)) - {i} for k, i in req_idx.items()}
    keep = {}
    for k, i in req_idx.items():
        dropped = any(i in desc[k2] and (i2 not in desc[k] or i2 < i) for k2, i2 in req_idx.items() if k2 != k)
        if not dropped:
            keep[k] = i
    return keep


def _histories():
    """small execution histories (id, route, prev) in the shape update_task_state leaves them"""
    def rec(tid, prev, route=0):
        return {"id": tid, "route": route, "ctxs": {"in": [0]}, "prev": dict(prev), "next": {}, "status": st.SUCCEEDED}
    out = {}
    out["chain"] = [rec("a", {}), rec("b", {"a__t0": 0}), rec("c", {"b__t0": 1}), rec("d", {"c__t0": 2})]
    out["fork"] = [rec("a", {}), rec("b", {"a__t0": 0}), rec("x", {}), rec("c", {"a__t0": 0}), rec("d", {"b__t0": 1, "c__t0": 3})]
    out["loop"] = [rec("i", {}), rec("a", {"i__t0": 0}), rec("b", {"a__t0": 1}), rec("a", {"b__t0": 2})]
    out["diamond+tail"] = [rec("a", {}), rec("b", {"a__t0": 0}), rec("c", {"a__t0": 0}), rec("j", {"b__t0": 1, "c__t0": 2}),
                           rec("k", {"j__t0": 3}), rec("y", {})]
    return out


class RerunSequences(Unit):
    bounded = True
    name = "C.rerun_sequences"
    functions = ["orquesta.conducting.WorkflowState.get_task_sequence",
                 "orquesta.conducting.WorkflowConductor._collapse_task_rerun_requests"]
    obligations = {
        "C17.rerun.sequence_transitive": {"props": ["C17"], "text":
            "get_task_sequence(task, route) is the latest record of that task followed by exactly the records that followed an execution of that task on that route through any number of back references (not only the direct successors), each once"},
        "C17.rerun.collapse": {"props": ["C17", "C03"], "text":
            "of the requested task executions exactly those are kept that do not follow from another requested one - whatever other requests are present; of two that follow from each other (a loop) the earlier is kept, so an accepted request never collapses to nothing"},
    }
    assumptions = ["BOUNDED: four histories (chain of 4, fork with an unrelated task, loop, diamond with tail), every task as start, every subset of 1-3 requests; native differential against the specification functions in this file"]
    trusted = ["CPython"]

    def run_split(self, ctx, split):
        import itertools
        from orquesta import requests as rq

        def thunk(e):
            for name, seq in _histories().items():
                tasks = {}
                for i, t in enumerate(seq):
                    tasks[constants.TASK_STATE_ROUTE_FORMAT % (t["id"], str(t["route"]))] = i
                c, ws = cbase.new_conductor(st.FAILED, sequence=seq, tasks=tasks)
                for key, idx in tasks.items():
                    got = ws.get_task_sequence(seq[idx]["id"], seq[idx]["route"])
                    got_idx = [i for i, _ in got]
                    want = _spec_descendants(seq, idx)
                    ok = got_idx[:1] == [idx] and sorted(got_idx) == sorted(want) and all(seq[i] is t for i, t in got)
                    ctx.oblige("C17.rerun.sequence_transitive", ok, {"history": name, "task": key},
                               {"history": name, "task": key, "got": got_idx, "expected_set": sorted(want)})
                keys = sorted(tasks)
                for n in (1, 2, 3):
                    for combo in itertools.combinations(keys, n):
                        reqs = {k: rq.TaskRerunRequest.new(seq[tasks[k]]["id"], seq[tasks[k]]["route"]) for k in combo}
                        got = c._collapse_task_rerun_requests(reqs)
                        want = _spec_collapse(seq, {k: tasks[k] for k in combo})
                        ctx.oblige("C17.rerun.collapse", sorted(got) == sorted(want) and bool(got), {"history": name, "requests": list(combo)},
                                   {"history": name, "requests": list(combo), "kept": sorted(got), "expected": sorted(want)})
            ctx.canary()
        ctx.eng.explore(thunk)
        ctx.bounded.append({"unit": self.name, "bound": "4 histories, <=3 requests"})
