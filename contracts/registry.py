"""All proof units, in build order."""
UNITS = [
    ("contracts.wf_machine", "ProcessTaskEvent"),
]
