"""All proof units, in build order."""
UNITS = [
    ("contracts.wf_machine", "StatusLists"),
    ("contracts.wf_machine", "ProcessTaskEvent"),
    ("contracts.wf_machine", "ProcessWorkflowEvent"),
    ("contracts.task_machine", "ProcessActionEvent"),
    ("contracts.task_machine", "ProcessTaskItemEvent"),
    ("contracts.task_machine", "TaskProcessWorkflowEvent"),
    ("contracts.conductor_gnt", "GetNextTasks"),
    ("contracts.conductor_eta", "EvaluateTaskActions"),
    ("contracts.conductor_eta", "EvaluateTaskRetry"),
    ("contracts.conductor_uts", "UpdateTaskState"),
    ("contracts.conductor_misc", "InboundCriteria"),
    ("contracts.conductor_misc", "MakeTaskResult"),
    ("contracts.conductor_misc", "SetupRetry"),
    ("contracts.conductor_misc", "RequestWorkflowStatus"),
]
