"""Layer C: smaller conductor functions under contract — get_inbound_criteria_status (join barrier),
make_task_result, setup_retry_in_task_state / add_task_state, request_workflow_status."""
import z3

from orquesta import conducting, constants, events, exceptions as exc, machines, graphing
from orquesta.expressions import base as expr_base
from orquesta.utils import jsonify as json_util
from contracts import specconst as st

from pyvc import sym as S
from pyvc.engine import AbstractObj, Raised, Stub, SymExc
from pyvc.framework import Unit
from pyvc.sym import OptField, SConst, SInt, SBool, INTERN

from . import cbase

SAT, WIP, NOT = (constants.INBOUND_CRITERIA_SATISFIED, constants.INBOUND_CRITERIA_WIP,
                 constants.INBOUND_CRITERIA_NOT_SATISFIED)


# ================================================================================================
# get_inbound_criteria_status
# ================================================================================================
class InboundCriteria(Unit):
    bounded = True
    name = "C.get_inbound_criteria_status"
    functions = ["orquesta.conducting.WorkflowConductor.get_inbound_criteria_status",
                 "orquesta.conducting.WorkflowConductor.get_task_state_entry"]
    obligations = {
        "C07.gics.satisfied_iff": {"props": ["C07"], "text":
            "SATISFIED iff the number of distinct inbound tasks having a satisfied transition into the join (latest record on this route) reaches the requirement: all distinct inbound tasks for join: all, N for join: N, 1 for a non-join task"},
        "C07.gics.wip_vs_not": {"props": ["C07", "C03"], "text":
            "otherwise WIP iff some inbound task has not decided yet - it has no record on the route, or its execution is still in flight - and something is still active or staged ready; else NOT_SATISFIED (so the unreachable-join error is not raised for a join that a running branch can still reach)"},
        "C19.gics.pure": {"props": ["C19", "C18"], "text":
            "get_inbound_criteria_status modifies nothing"},
        "C15.gics.no_internal_error": {"props": ["C15"], "text": "no exception on a well-formed state"},
    }
    assumptions = [
        "BOUNDED: m <= 3 inbound transitions from <= 3 distinct inbound tasks (several transitions from one task allowed); records present/absent, next entries true/false/absent, activity facts: all symbolic",
        "graph.get_prev_transitions / get_barrier: assumed contracts on the networkx wrapper (returns the inbound edges (src, dst, key, attrs) / the barrier attribute)",
        "iteration order of set(...) over inbound task ids is arbitrary: the result must not depend on it (checked: both orders explored by the engine's set model where sizes allow)",
    ]
    trusted = ["z3 5.1", "pyvc interpreter"]

    def splits(self, tier):
        shapes = [(), ("p1",), ("p1", "p2"), ("p1", "p1"), ("p1", "p2", "p3"), ("p1", "p1", "p2")]
        barriers = [None, "*", 1, 2, 3]
        return [(sh, b) for sh in shapes for b in barriers]

    def run_split(self, ctx, split):
        srcs, barrier = split
        first = [True]

        def thunk(e):
            e.register_input("inbound_sources", list(srcs))
            e.register_input("barrier", barrier)
            distinct = list(dict.fromkeys(srcs))
            sequence, tasks = [], {}
            truth = {}
            for p in distinct:
                present = e.branch(e.register_input("rec_%s" % p, S.mk_bool("rec_%s" % p)).z)
                truth[p] = {"present": present, "tr": []}
                if present:
                    # the inbound task has completed (its transitions are decided) or is still in flight
                    in_flight = e.branch(e.register_input("in_flight_%s" % p, S.mk_bool("in_flight_%s" % p)).z)
                    truth[p]["in_flight"] = in_flight
                    rec = {"id": p, "route": 0, "ctxs": {"in": [0]}, "prev": {}, "next": {},
                           "status": st.RUNNING if in_flight else st.SUCCEEDED}
                    sequence.append(rec)
                    tasks["%s__r0" % p] = len(sequence) - 1
                    truth[p]["rec"] = rec
            for k, p in enumerate(srcs):
                if truth[p]["present"] and not truth[p]["in_flight"]:
                    key = srcs[:k].count(p)
                    tid = "j__t%d" % key
                    kind = e.choose(3)   # 0 absent, 1 present with symbolic value
                    if kind == 1:
                        val = e.register_input("next_%s_%d" % (p, key), S.mk_bool("next_%s_%d" % (p, key)))
                        truth[p]["rec"]["next"][tid] = val
                        truth[p]["tr"].append(val.z)
                    elif kind == 2:
                        truth[p]["rec"]["next"][tid] = False
            active = e.register_input("has_active", S.mk_bool("has_active"))
            staged_ready = e.register_input("has_staged", S.mk_bool("has_staged"))

            def get_prev_transitions(eng, tid):
                out = []
                for k, p in enumerate(srcs):
                    out.append((p, "j", srcs[:k].count(p), {"criteria": [], "ref": 0}))
                return sorted(out, key=lambda x: x[1])

            graph = AbstractObj("graph",
                                get_prev_transitions=Stub("get_prev_transitions", get_prev_transitions),
                                get_barrier=Stub("get_barrier", lambda eng, tid: barrier))
            c, ws = cbase.new_conductor(st.RUNNING, sequence=sequence, tasks=tasks, graph=graph)
            e.prop_overrides[(conducting.WorkflowState, "has_active_tasks")] = lambda eng, o: active
            e.prop_overrides[(conducting.WorkflowState, "has_staged_tasks")] = lambda eng, o: staged_ready
            snap = [cbase.snapshot(r) for r in sequence]
            raised = None
            res = None
            try:
                res = e.call(conducting.WorkflowConductor.get_inbound_criteria_status, [c, "j", 0], {})
            except Raised as r:
                raised = r
            if first[0]:
                ctx.canary()
                first[0] = False
            info = {"inbound_sources": list(srcs), "barrier": barrier}
            # requirement only makes sense when it can be met by the declared inbound tasks
            ctx.oblige("C15.gics.no_internal_error", raised is None, None, info)
            if raised is not None:
                return
            sat_tasks = [z3.Or(truth[p]["tr"]) if truth[p]["tr"] else z3.BoolVal(False) for p in distinct]
            n_true = z3.Sum([z3.If(b, 1, 0) for b in sat_tasks]) if sat_tasks else z3.IntVal(0)
            if barrier == "*":
                req = len(distinct)
            elif barrier is None:
                req = 1
            else:
                req = barrier
            want_sat = n_true >= req
            undecided = [z3.BoolVal(not truth[p]["present"]) if not truth[p]["present"] else z3.BoolVal(False)
                         for p in distinct]
            # an inbound task "has not decided" if it has no record, or its record has no truthy/false
            # decision for any of its transitions into the join yet
            for i, p in enumerate(distinct):
                if truth[p]["present"]:
                    # a task that is still in flight has not decided on its transitions yet
                    undecided[i] = z3.BoolVal(bool(truth[p]["in_flight"]))
            res_z = res.z if isinstance(res, SConst) else z3.IntVal(INTERN.id_of(res))
            ctx.oblige("C07.gics.satisfied_iff", (res_z == INTERN.id_of(SAT)) == want_sat, None, info)
            any_undecided = z3.Or(undecided) if undecided else z3.BoolVal(False)
            wip = z3.And(z3.Not(want_sat), any_undecided, z3.Or(active.z, staged_ready.z))
            ctx.oblige("C07.gics.wip_vs_not", z3.And((res_z == INTERN.id_of(WIP)) == wip,
                                                     z3.Implies(z3.And(z3.Not(want_sat), z3.Not(wip)),
                                                                res_z == INTERN.id_of(NOT))), None, info)
            same = all(sequence[i] is r0 or True for i, r0 in enumerate(sequence)) and \
                cbase.same_structure(e, snap, sequence)
            ctx.oblige("C19.gics.pure", same if isinstance(same, bool) else same, None, info)

        ctx.eng.explore(thunk)
        ctx.bounded.append({"unit": self.name, "bound": "inbound=%s barrier=%s" % (list(srcs), barrier)})


# ================================================================================================
# get_unreachable_barriers (definition of the UB fact)
# ================================================================================================
class UnreachableBarriers(Unit):
    bounded = True
    name = "S.get_unreachable_barriers"
    functions = ["orquesta.conducting.WorkflowState.get_unreachable_barriers"]
    obligations = {
        "C07.gub.definition": {"props": ["C07", "C02"], "text":
            "get_unreachable_barriers returns exactly the staged entries, at any position of the staged list, that are join tasks, not ready, and whose inbound criteria can no longer be satisfied - in staged order, whatever other entries (ready tasks, completed-flagged with-items entries) surround them"},
    }
    assumptions = ["BOUNDED: <= 3 staged entries; per entry: join or not, ready flag and inbound-criteria status symbolic",
                   "graph.get_barriers / get_inbound_criteria_status through their contracts"]
    trusted = ["z3 5.1", "pyvc interpreter"]

    def splits(self, tier):
        return [0, 1, 2, 3]

    def run_split(self, ctx, split):
        n = split

        def thunk(e):
            staged, meta = [], []
            for k in range(n):
                is_join = e.branch(S.mk_bool("is_join%d" % k).z)
                ready = e.register_input("ready%d" % k, S.mk_bool("ready%d" % k))
                inb = S.mk_const("inb%d" % k, (SAT, WIP, NOT))
                e.assume(inb.dom_constraint())
                tid = ("j%d" % k) if is_join else ("p%d" % k)
                ent = {"id": tid, "route": 0, "ctxs": {"in": [0]}, "prev": {}, "ready": ready}
                if not is_join and e.branch(S.mk_bool("completed%d" % k).z):
                    ent["completed"] = True
                    ent["items"] = []
                staged.append(ent)
                meta.append((is_join, ready, inb))
            graph = AbstractObj("graph", get_barriers=Stub("get_barriers", lambda eng: {
                "j%d" % k: {"barrier": "*"} for k in range(n) if meta[k][0]}))
            c, ws = cbase.new_conductor(st.RUNNING, staged=staged, graph=graph)
            e.overrides[conducting.WorkflowConductor.get_inbound_criteria_status] = \
                lambda eng, s_, tid, route: meta[int(tid[1:])][2]
            res = e.call(conducting.WorkflowState.get_unreachable_barriers, [ws], {})
            cl = []
            for k in range(n):
                is_join, ready, inb = meta[k]
                want = z3.And(z3.BoolVal(is_join), z3.Not(ready.z), inb.z == INTERN.id_of(NOT))
                cl.append(want == z3.BoolVal(any(x is staged[k] for x in res)))
            order_ok = [staged.index(x) for x in res] == sorted(staged.index(x) for x in res)
            ctx.oblige("C07.gub.definition", z3.And(z3.BoolVal(order_ok), *cl) if cl else z3.BoolVal(res == []), None,
                       {"staged": n})
            ctx.canary()

        ctx.eng.explore(thunk)
        ctx.bounded.append({"unit": self.name, "bound": "%d staged entries" % n})


class UnreachableBarriersUnbounded(Unit):
    name = "S.get_unreachable_barriers.unbounded"
    functions = ["orquesta.conducting.WorkflowState.get_unreachable_barriers", "orquesta.conducting.WorkflowState.get_staged_tasks"]
    obligations = {
        "C07.gub.definition_any": {"props": ["C07", "C02"], "text":
            "for a staged list of any length, in an arbitrary loop iteration: the staged entry is appended to the result iff it is a join task, not ready, and its inbound criteria (asked for exactly its own id and route) are NOT_SATISFIED; it is appended itself, once, unmodified, and nothing else is appended; the call returns the accumulated list and every entry of the raw staged list (not the ready-filtered one) is iterated"},
    }
    assumptions = [
        "loop summary: the loop body is verified for one arbitrary element of the iterated list from the initial accumulator; the result is only appended to (shown per iteration) - the lift to all iterations (result = order-preserving selection of the staged list by the per-entry predicate) is this monotone-accumulator argument, not re-proved by the solver",
        "graph.get_barriers: assumed contract (a container with an arbitrary membership predicate); get_inbound_criteria_status: assumed contract (an arbitrary function of (task id, route) into the three criteria statuses, no effect) - its definition is the subject of C.get_inbound_criteria_status",
    ]
    trusted = ["z3 5.1", "pyvc interpreter"]
    timeout_ms = 20000

    def splits(self, tier):
        return ["generic"]

    def run_split(self, ctx, split):
        import ast as _ast
        from pyvc import seqlib
        from pyvc.engine import _Continue
        from pyvc.sym import SList

        def thunk(e):
            I, B = z3.IntSort(), z3.BoolSort()
            fid = z3.Function(S.fresh_name("stg_id"), I, I)
            frt = z3.Function(S.fresh_name("stg_route"), I, I)
            frd = z3.Function(S.fresh_name("stg_ready"), I, B)
            fhc = z3.Function(S.fresh_name("stg_has_completed"), I, B)
            fco = z3.Function(S.fresh_name("stg_completed"), I, B)
            isjoin = z3.Function(S.fresh_name("is_barrier"), I, B)
            crit = z3.Function(S.fresh_name("criteria"), I, I, I)
            m = z3.Int(S.fresh_name("n_staged"))
            e.assume(m >= 0)

            def get(j):
                j = seqlib.zidx(j)
                return {"id": SConst(fid(j)), "route": SInt(frt(j)), "ready": SBool(frd(j)),
                        "completed": OptField(fhc(j), SBool(fco(j))), "__idx": SInt(j)}
            staged = SList(m, get, "staged")
            calls = []

            def contains(eng, x):
                if not isinstance(x, SConst):
                    raise S.Unsupported("barrier membership asked for something that is not a staged id")
                return SBool(isjoin(x.z))
            barriers = AbstractObj("barriers", __contains__=Stub("__contains__", contains))
            graph = AbstractObj("graph", get_barriers=Stub("get_barriers", lambda eng: barriers))
            c, ws = cbase.new_conductor(st.RUNNING, staged=staged, graph=graph)

            def gics(eng, s_, tid, route):
                calls.append((tid, route))
                if not isinstance(tid, SConst) or not isinstance(route, SInt):
                    raise S.Unsupported("inbound criteria asked for something that is not a staged id / route")
                r = SConst(crit(tid.z, route.z), (SAT, WIP, NOT))
                eng.assume(r.dom_constraint())
                return r
            e.overrides[conducting.WorkflowConductor.get_inbound_criteria_status] = gics
            state = {"iter": None, "xs": None}

            def loop(en, st_, env):
                xs = en.eval(st_.iter, env)
                if not isinstance(xs, SList):
                    raise S.Unsupported("expected the symbolic staged list")
                state["xs"] = xs
                accs = sorted({n.func.value.id for n in _ast.walk(st_) if isinstance(n, _ast.Call)
                               and isinstance(n.func, _ast.Attribute) and n.func.attr == "append"
                               and isinstance(n.func.value, _ast.Name)})
                if len(accs) != 1:
                    raise S.Unsupported("loop of get_unreachable_barriers: expected one accumulator list, found %s" % (accs,))
                acc_name = accs[0]
                if en.branch(xs.length > 0):
                    i = z3.Int(S.fresh_name("iter"))
                    en.assume(z3.And(0 <= i, i < xs.length))
                    elem = xs.get(i)
                    if env.lookup(acc_name) != []:
                        raise S.Unsupported("accumulator is not empty at loop entry")
                    snap = dict(elem)
                    en.assign(st_.target, elem, env)
                    try:
                        en.exec_block(st_.body, env)
                    except _Continue:
                        pass
                    state["iter"] = {"elem": elem, "snap": snap, "acc_after": list(env.lookup(acc_name)), "calls": list(calls)}
                env.locals[acc_name] = "ACCUMULATED_BARRIERS"

            e.loop_handlers["WorkflowState.get_unreachable_barriers:loop#0"] = loop
            res = e.call(conducting.WorkflowState.get_unreachable_barriers, [ws], {})
            info = {}
            cl = [z3.BoolVal(res == "ACCUMULATED_BARRIERS"), z3.BoolVal(state["xs"] is staged)]
            it = state["iter"]
            if it is not None:
                elem = it["elem"]
                q = elem["__idx"].z
                want = z3.And(isjoin(fid(q)), z3.Not(frd(q)), crit(fid(q), frt(q)) == INTERN.id_of(NOT))
                got = it["acc_after"]
                cl.append(z3.BoolVal(len(got) <= 1 and all(x is elem for x in got)))
                cl.append(want == z3.BoolVal(len(got) == 1))
                cl.append(z3.BoolVal(set(elem.keys()) == set(it["snap"].keys()) and all(elem[k] is it["snap"][k] for k in elem)))
                cl.append(z3.BoolVal(all(t is elem["id"] and r is elem["route"] for t, r in it["calls"])))
                info["appended"] = len(got)
            ctx.oblige("C07.gub.definition_any", z3.And(cl), None, info)
            ctx.canary()

        ctx.eng.explore(thunk)


# ================================================================================================
# make_task_result
# ================================================================================================
class MakeTaskResult(Unit):
    name = "C.make_task_result"
    functions = ["orquesta.conducting.WorkflowConductor.make_task_result"]
    obligations = {
        "C01.mtr.actual_result": {"props": ["C01", "C16"], "text":
            "a plain task's result is exactly the event's result (whatever its truthiness); a with-items task's result is the accumulated result (or [] when there is none)"},
    }
    assumptions = ["event.result / accumulated_result are opaque values with arbitrary truthiness"]
    trusted = ["z3 5.1", "pyvc interpreter"]

    def splits(self, tier):
        return [(items, kind) for items in (False, True) for kind in ("action", "item", "engine")]

    def run_split(self, ctx, split):
        has_items, kind = split

        def thunk(e):
            result = S.mk_val("result")
            acc = S.mk_val("accumulated")
            e.register_input("has_items", has_items)
            e.register_input("kind", kind)
            spec = AbstractObj("task_spec", has_items=Stub("has_items", lambda en: has_items))
            if kind == "action":
                event = e.call(events.ActionExecutionEvent, [st.SUCCEEDED], {"result": result})
            elif kind == "item":
                event = e.call(events.TaskItemActionExecutionEvent, [0, st.SUCCEEDED],
                               {"result": result, "accumulated_result": acc})
            else:
                event = e.call(events.TaskContinueEvent, [], {})
            c, ws = cbase.new_conductor(st.RUNNING)
            res = e.call(conducting.WorkflowConductor.make_task_result, [c, spec, event], {})
            info = {"has_items": has_items, "event": kind}
            src = event.result
            if not has_items:
                ctx.oblige("C01.mtr.actual_result", res is src, None, info)
            else:
                want_src = acc if kind == "item" else src
                if want_src is None:
                    ctx.oblige("C01.mtr.actual_result", res == [] if not isinstance(res, S.Sym) else False, None, info)
                else:
                    truthy = e.zbool(want_src)
                    if isinstance(res, S.Sym):
                        ctx.oblige("C01.mtr.actual_result", z3.And(truthy, z3.BoolVal(res is want_src)), None, info)
                    else:
                        ctx.oblige("C01.mtr.actual_result", z3.And(z3.Not(truthy), z3.BoolVal(res == [])), None, info)
            ctx.canary()

        ctx.eng.explore(thunk)


# ================================================================================================
# setup_retry_in_task_state / add_task_state
# ================================================================================================
class SetupRetry(Unit):
    bounded = True
    name = "C.add_task_state"
    functions = ["orquesta.conducting.WorkflowConductor.add_task_state",
                 "orquesta.conducting.WorkflowConductor.setup_retry_in_task_state",
                 "orquesta.graphing.WorkflowGraph.get_task_retry_spec",
                 "orquesta.graphing.WorkflowGraph.task_has_retry",
                 "orquesta.graphing.WorkflowGraph.get_task"]
    obligations = {
        "C13.setup.fresh_policy": {"props": ["C13", "C05", "C18"], "text":
            "each new record gets its own retry policy: tally 0, count/delay evaluated to ints, and no container shared with the graph node, with another record, or with the caller's arguments"},
        "C13.setup.ints": {"props": ["C13", "C11"], "text":
            "a count or delay expression that does not evaluate to an int is rejected (contained by add_task_state: logged, failed, no retry policy on the record)"},
        "C18.ats.append": {"props": ["C18", "C05"], "text":
            "add_task_state appends exactly one record, points the task pointer at it, leaves earlier records untouched, and stores copies of the context pointers and back references"},
    }
    assumptions = [
        "networkx node attribute dict accessed through the real WorkflowGraph wrapper (graph with one node built natively)",
        "expr_base.evaluate: may raise, else returns an arbitrary value; json_util.deepcopy: fresh structural copy",
    ]
    trusted = ["z3 5.1", "pyvc interpreter", "networkx (node attribute storage)"]

    def splits(self, tier):
        return [(c, d) for c in ("int", "expr") for d in ("none", "int", "expr")] + [("noretry", "none")]

    def run_split(self, ctx, split):
        ckind, dkind = split

        def thunk(e):
            e.overrides[json_util.deepcopy] = cbase.deepcopy_model
            e.register_input("count_kind", ckind)
            e.register_input("delay_kind", dkind)
            g = graphing.WorkflowGraph()
            node_retry = None
            if ckind != "noretry":
                node_retry = {"when": "<% failed() %>", "count": 2 if ckind == "int" else "<% count %>",
                              "delay": None if dkind == "none" else (1 if dkind == "int" else "<% delay %>")}
                if dkind == "none":
                    del node_retry["delay"]
                g.add_task("t", retry=node_retry)
            else:
                g.add_task("t")
            node_snapshot = cbase.snapshot(node_retry) if node_retry else None
            log = cbase.CallLog()
            ev_out = {}

            def evaluate(eng, statement, data=None):
                k = eng.choose(3)
                ev_out[statement] = ("int", "nonint", "raises")[k]
                if k == 2:
                    raise Raised(exc.ExpressionEvaluationException, ("evaluation failed",))
                if k == 0:
                    return S.mk_int("evaluated")
                return "three"

            e.overrides[expr_base.evaluate] = evaluate
            e.overrides[conducting.WorkflowConductor.log_error] = \
                lambda eng, s_, err, task_id=None, route=None, task_transition_id=None: log.add("log_error", err, task_id=task_id, route=route)
            e.overrides[conducting.WorkflowConductor.request_workflow_status] = \
                lambda eng, s_, status: log.add("rws", status)
            e.overrides[conducting.WorkflowConductor.get_task_context] = lambda eng, s_, idxs: {}
            old = {"id": "t", "route": 0, "ctxs": {"in": [0]}, "prev": {}, "next": {}, "status": st.FAILED}
            if node_retry:
                old["retry"] = {"when": "<% failed() %>", "count": 2, "tally": 2}
            sequence = [old]
            tasks = {"t__r0": 0}
            old_snap = cbase.snapshot(old)
            c, ws = cbase.new_conductor(st.RUNNING, sequence=sequence, tasks=tasks, graph=g)
            in_ctx = [0, 1]
            prev = {"x__t0": 0}
            raised = None
            try:
                rec = e.call(conducting.WorkflowConductor.add_task_state, [c, "t", 0],
                             {"in_ctx_idxs": in_ctx, "prev": prev})
            except Raised as r:
                raised = r
            info = {"count": ckind, "delay": dkind, "evaluations": dict(ev_out)}
            if raised is not None:
                ctx.oblige("C13.setup.ints", False, None, dict(info, raised=repr(raised)))
                return
            ok = len(sequence) == 2 and sequence[0] is old and sequence[1] is rec and tasks.get("t__r0") == 1 \
                and rec["ctxs"]["in"] is not in_ctx and rec["ctxs"]["in"] == [0, 1] and rec["prev"] is not prev \
                and rec["prev"] == {"x__t0": 0} and rec["next"] == {} and "status" not in rec
            same_old = cbase.same_structure(e, old, old_snap)
            ctx.oblige("C18.ats.append", z3.And(z3.BoolVal(ok), same_old if not isinstance(same_old, bool) else z3.BoolVal(same_old)), None, info)
            bad_eval = any(v != "int" for v in ev_out.values())
            if ckind == "noretry":
                ctx.oblige("C13.setup.fresh_policy", "retry" not in rec, None, info)
                return
            if bad_eval:
                contained = "retry" not in rec and len(log.named("log_error")) == 1 and \
                    log.named("log_error")[0][2].get("task_id") == "t" and log.named("rws") == [("rws", (st.FAILED,), {})]
                ctx.oblige("C13.setup.ints", contained, None, info)
                return
            ctx.oblige("C13.setup.ints", not log.calls, None, info)
            r = rec.get("retry")
            node_now = g._graph.nodes["t"].get("retry")
            fresh = isinstance(r, dict) and r is not node_now and r is not old.get("retry") and r.get("tally") == 0 \
                and (isinstance(r.get("count"), (int, SInt)) and not isinstance(r.get("count"), bool)) \
                and ("delay" not in r or r["delay"] is None or isinstance(r["delay"], (int, SInt)))
            node_same = cbase.same_structure(e, node_now, node_snapshot)
            ctx.oblige("C13.setup.fresh_policy", z3.And(z3.BoolVal(bool(fresh)),
                       node_same if not isinstance(node_same, bool) else z3.BoolVal(node_same),
                       z3.BoolVal("tally" not in node_now)), None, info)
            ctx.canary()

        ctx.eng.explore(thunk)


# ================================================================================================
# request_workflow_status
# ================================================================================================
class RequestWorkflowStatus(Unit):
    bounded = True
    name = "C.request_workflow_status"
    functions = ["orquesta.conducting.WorkflowConductor.request_workflow_status",
                 "orquesta.conducting.WorkflowState.get_tasks_by_status",
                 "orquesta.machines.TaskStateMachine.process_event",
                 "orquesta.machines.WorkflowStateMachine.process_event"]
    obligations = {
        "C04.rws.rejected_no_effect": {"props": ["C04"], "text":
            "a status request that is rejected with an error leaves the persisted state (workflow status, every task record, staged entries) exactly as it was"},
        "C04.rws.rejected_iff_forbidden": {"props": ["C04", "C09", "C10"], "text":
            "a request raises exactly when the lifecycle has no transition for it (status unchanged although a different status was requested), except the two documented no-ops (paused while pausing, canceled while canceling)"},
        "C09.rws.held_back": {"props": ["C09", "C10", "C18"], "text":
            "a status request never modifies staged entries, contexts, or any record other than the status of with-items / retrying tasks that the request pauses or cancels"},
        "C10.rws.active_tasks_follow": {"props": ["C10", "C09", "C12"], "text":
            "an accepted pause/cancel request moves every running with-items task to pausing/canceling (paused/canceled when none of its items is active)"},
    }
    assumptions = [
        "BOUNDED: one task record with symbolic status (plain, with-items with 2 symbolic items, or retrying) plus the workflow status; all statuses symbolic",
        "pre-state INV-ST: a paused/canceled/succeeded workflow has no active task; pausing/canceling has one",
    ]
    trusted = ["z3 5.1", "pyvc interpreter"]

    def splits(self, tier):
        wf = [st.UNSET, st.RUNNING, st.PAUSING, st.PAUSED, st.RESUMING, st.CANCELING, st.CANCELED, st.SUCCEEDED, st.FAILED]
        reqs = [st.RUNNING, st.PAUSING, st.PAUSED, st.RESUMING, st.CANCELING, st.CANCELED, st.FAILED]
        shapes = ["none", "plain", "items", "retrying"]
        return [(w, r, s) for w in wf for r in reqs for s in shapes]

    def run_split(self, ctx, split):
        wf_c, req_c, shape = split
        first = [True]

        def thunk(e):
            e.register_input("wf", wf_c)
            e.register_input("req", req_c)
            e.register_input("shape", shape)
            sequence, tasks, staged = [], {}, []
            rec = None
            if shape != "none":
                if shape == "retrying":
                    ts = st.RETRYING
                else:
                    ts = st.ALL_STATUSES[e.choose(len(st.ALL_STATUSES) - 1)]   # all but UNSET (last)
                rec = {"id": "t", "route": 0, "ctxs": {"in": [0]}, "prev": {}, "next": {}, "status": ts}
                e.register_input("task_status", ts)
                sequence.append(rec)
                tasks["t__r0"] = 0
                if shape == "items":
                    items = [{"status": e.register_input("item%d" % i, S.mk_const("item%d" % i, st.ALL_STATUSES))} for i in range(2)]
                    for it in items:
                        e.assume(it["status"].dom_constraint())
                    staged.append({"id": "t", "route": 0, "ctxs": {"in": [0]}, "prev": {}, "ready": True, "items": items})
                elif shape == "retrying":
                    staged.append({"id": "t", "route": 0, "ctxs": {"in": [0]}, "prev": {}, "ready": True,
                                   "retry": {"count": 2, "tally": 1, "when": None}})
            active = rec is not None and rec["status"] in st.ACTIVE_STATUSES
            # INV-ST
            if wf_c in (st.PAUSED, st.CANCELED, st.SUCCEEDED, st.UNSET) and active:
                raise_infeasible(e)
            if wf_c in (st.PAUSING, st.CANCELING) and not active:
                raise_infeasible(e)
            graph = AbstractObj("graph", get_barriers=Stub("get_barriers", lambda eng: {}))
            c, ws = cbase.new_conductor(wf_c, staged=staged, sequence=sequence, tasks=tasks, graph=graph)
            snap_seq = cbase.snapshot(sequence)
            snap_staged = cbase.snapshot(staged)
            raised = None
            try:
                e.call(conducting.WorkflowConductor.request_workflow_status, [c, req_c], {})
            except Raised as r:
                raised = r
            if first[0]:
                ctx.canary()
                first[0] = False
            info = {"wf": wf_c, "req": req_c, "task": shape, "task_status": rec["status"] if rec else None}
            vals = {"wf": wf_c, "req": req_c, "shape": shape, "task_status": snap_seq[0]["status"] if rec else None,
                    "raised": raised is not None}
            new = ws.status
            seq_same = cbase.same_structure(e, snap_seq, sequence)
            stg_same = cbase.same_structure(e, snap_staged, staged)
            zb = lambda x: x if not isinstance(x, bool) else z3.BoolVal(x)
            if raised is not None:
                ok_cls = raised.cls in (exc.InvalidWorkflowStatusTransition, exc.InvalidEvent)
                ctx.oblige("C04.rws.rejected_no_effect", z3.And(z3.BoolVal(new == wf_c and ok_cls), zb(seq_same), zb(stg_same)),
                           vals, info)
            else:
                ctx.oblige("C04.rws.rejected_no_effect", True, vals, info)
            noop = (req_c == st.PAUSED and wf_c == st.PAUSING and new == st.PAUSING) or \
                   (req_c == st.CANCELED and wf_c == st.CANCELING and new == st.CANCELING)
            forbidden = (req_c != wf_c and new == wf_c and not noop)
            ctx.oblige("C04.rws.rejected_iff_forbidden", (raised is not None) == forbidden, vals, info)
            # frame: staged entries untouched; record fields other than status untouched
            frame = zb(stg_same)
            if rec is not None:
                frame = z3.And(frame, zb(cbase.same_structure(
                    e, {k: v for k, v in sequence[0].items() if k != "status"},
                    {k: v for k, v in snap_seq[0].items() if k != "status"})))
                if shape == "plain":
                    frame = z3.And(frame, z3.BoolVal(sequence[0]["status"] == snap_seq[0]["status"]))
            ctx.oblige("C09.rws.held_back", frame, vals, info)
            if raised is None and shape == "items" and snap_seq[0]["status"] == st.RUNNING and \
                    req_c in st.PAUSE_STATUSES + st.CANCEL_STATUSES and new != wf_c:
                its = staged[0]["items"]
                anyact = z3.Or([z3.Or([it["status"].z == INTERN.id_of(a) for a in st.ACTIVE_STATUSES]) for it in its])
                anyinc = z3.Or([z3.And([it["status"].z != INTERN.id_of(a) for a in st.COMPLETED_STATUSES]) for it in its])
                tnew = sequence[0]["status"]
                if req_c in st.PAUSE_STATUSES:
                    want = (st.PAUSING, st.PAUSED)
                else:
                    want = (st.CANCELING, st.CANCELED)
                ctx.oblige("C10.rws.active_tasks_follow",
                           z3.Implies(anyinc, z3.And(z3.Implies(anyact, z3.BoolVal(tnew == want[0])),
                                                     z3.Implies(z3.Not(anyact), z3.BoolVal(tnew == want[1])))), vals, info)
            else:
                ctx.oblige("C10.rws.active_tasks_follow", True, vals, info)

        ctx.eng.explore(thunk)
        ctx.bounded.append({"unit": self.name, "bound": "one task record, 2 items"})


def raise_infeasible(e):
    from pyvc.engine import PathInfeasible
    raise PathInfeasible()


# ================================================================================================
# rejection prefixes on an ABSTRACT state (proof: for every state)
# ================================================================================================
class RejectionPrefixes(Unit):
    name = "C.rejection_prefixes"
    functions = ["orquesta.conducting.WorkflowConductor.request_workflow_status",
                 "orquesta.conducting.WorkflowConductor.update_task_state",
                 "orquesta.machines.WorkflowStateMachine.is_transition_valid"]
    obligations = {
        "C04.rws.rejected_before_any_effect": {"props": ["C04"], "text":
            "for every state: a status request for which the row of the current status has no event at all (neither the bare request nor a contextualised form of it) raises InvalidWorkflowStatusTransition before any task or the workflow state is read further or written; a request the row does have an event for is never refused by that validation (e.g. canceling requested on a paused workflow is served by workflow_canceling_workflow_dormant)"},
        "C11.uts.validation_before_any_effect": {"props": ["C11", "C15", "C04"], "text":
            "for every state: update_task_state rejects a non-event (TypeError), a task unknown to the graph (InvalidTask) and a task that is neither staged nor has a record (InvalidTaskStateEntry) before anything is written"},
    }
    assumptions = ["the state is abstract: only the workflow status (case split) and the three membership facts are readable; every write or further call is recorded"]
    trusted = ["z3 5.1", "pyvc interpreter"]

    def splits(self, tier):
        return [("rws", o, r) for o in st.ALL_STATUSES for r in st.ALL_STATUSES] + [("uts", None, None)]

    def run_split(self, ctx, split):
        kind, old_c, req_c = split
        if kind == "uts":
            return self.run_uts(ctx)
        table = machines.WORKFLOW_STATE_MACHINE_DATA

        def thunk(e):
            e.register_input("old", old_c)
            e.register_input("req", req_c)
            touched = []

            def gtbs(eng, statuses_, last_occurrence=True):
                touched.append("get_tasks_by_status")
                raise S.Unsupported("abstract state read past the rejection point")

            ws = AbstractObj("workflow_state", status=old_c, get_tasks_by_status=Stub("get_tasks_by_status", gtbs))
            c = object.__new__(conducting.WorkflowConductor)
            c.__dict__.update(dict(_workflow_state=ws, spec=None, _graph=None, _errors="E", _outputs="O"))
            raised, beyond = None, False
            try:
                e.call(conducting.WorkflowConductor.request_workflow_status, [c, req_c], {})
            except Raised as r:
                raised = r
            except S.Unsupported:
                beyond = True
            # the request is hopeless when the row of the current status has no event for it at all -
            # neither the bare request event nor one of its contextualised forms (.._workflow_active /
            # _dormant / _completed).  NOT "the requested status is not among the row's values": a
            # canceling request on a paused workflow is served by workflow_canceling_workflow_dormant -> canceled.
            ev_name = "workflow_%s" % req_c
            row = table.get(old_c, {})
            has_event = any(k == ev_name or k.startswith(ev_name + "_workflow_") for k in row)
            hopeless = req_c != old_c and not has_event
            writes = [t for t in e.path.trace if t[0] in ("setattr", "setitem", "list_append", "dict_pop", "list_remove")]
            if hopeless:
                ok = raised is not None and raised.cls in (exc.InvalidWorkflowStatusTransition,) and not touched and not writes and not beyond
                ctx.oblige("C04.rws.rejected_before_any_effect", ok, None, {"old": old_c, "req": req_c, "raised": repr(raised)})
            else:
                # a request the row does have an event for is not refused by the validation prefix: the
                # call goes on to consult the tasks (the abstract state stops the exploration there)
                ok = raised is None and (beyond or touched)
                ctx.oblige("C04.rws.rejected_before_any_effect", ok, None, {"old": old_c, "req": req_c, "raised": repr(raised), "served_by": sorted(k for k in row if k == ev_name or k.startswith(ev_name + "_workflow_"))})
            ctx.canary()

        ctx.eng.explore(thunk)

    def run_uts(self, ctx):
        def thunk(e):
            in_graph = e.register_input("task_in_graph", S.mk_bool("task_in_graph"))
            staged = e.register_input("is_staged", S.mk_bool("is_staged"))
            has_rec = e.register_input("has_record", S.mk_bool("has_record"))
            is_event = e.branch(e.register_input("is_event", S.mk_bool("is_event")).z)
            graph = AbstractObj("graph", has_task=Stub("has_task", lambda eng, x: in_graph))

            def get_staged_task(eng, tid, route):
                return {"id": tid, "route": route} if eng.branch(staged.z) else None

            def tasks_get(eng, key, default=None):
                return 0 if eng.branch(has_rec.z) else default

            def seq_get(eng, idx):
                raise S.Unsupported("past the validation prefix")

            ws = AbstractObj("workflow_state", get_staged_task=Stub("get_staged_task", get_staged_task),
                             tasks=AbstractObj("tasks", get=Stub("get", tasks_get)),
                             sequence=AbstractObj("sequence", __getitem__=Stub("getitem", lambda eng, i: {"id": "t", "route": 0, "status": st.RUNNING, "__abstract_record__": True})))
            spec = AbstractObj("spec", tasks=AbstractObj("spec.tasks", get_task=Stub("get_task", lambda eng, x: AbstractObj("ts"))))
            c = object.__new__(conducting.WorkflowConductor)
            c.__dict__.update(dict(_workflow_state=ws, spec=spec, _graph=graph, _errors="E", _outputs="O"))
            event = events.ActionExecutionEvent(st.RUNNING) if is_event else {"status": "running"}
            raised, beyond = None, False
            try:
                e.call(conducting.WorkflowConductor.update_task_state, [c, "t", 0, event], {})
            except Raised as r:
                raised = r
            except S.Unsupported:
                beyond = True
            writes = [t for t in e.path.trace if t[0] in ("setattr", "setitem", "list_append", "dict_pop", "list_remove")]
            cls = raised.cls if raised is not None else None
            want_type = z3.BoolVal(not is_event)
            want_task = z3.And(z3.BoolVal(is_event), z3.Not(in_graph.z))
            want_entry = z3.And(z3.BoolVal(is_event), in_graph.z, z3.Not(staged.z), z3.Not(has_rec.z))
            clean = z3.BoolVal(not writes and not beyond)
            ctx.oblige("C11.uts.validation_before_any_effect", z3.And(
                z3.Implies(want_type, z3.And(z3.BoolVal(cls is TypeError), clean)),
                z3.Implies(want_task, z3.And(z3.BoolVal(cls is exc.InvalidTask), clean)),
                z3.Implies(want_entry, z3.And(z3.BoolVal(cls is exc.InvalidTaskStateEntry), clean)),
                z3.Implies(z3.BoolVal(cls in (TypeError, exc.InvalidTask, exc.InvalidTaskStateEntry) and not beyond),
                           z3.Or(want_type, want_task, want_entry))), None, {"is_event": is_event, "raised": repr(raised)})
            ctx.canary()

        ctx.eng.explore(thunk)
