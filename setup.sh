#!/bin/sh
# Offline setup: unpack the z3-solver wheel next to the framework (no pip, no network).
set -e
cd "$(dirname "$0")"
WHEEL=$(ls /opt/veriftools/wheels/z3_solver-*.whl | head -1)
if [ ! -d .deps/z3 ]; then
  mkdir -p .deps
  /venv/bin/python -m zipfile -e "$WHEEL" .deps
fi
PYTHONPATH="$PWD/.deps" /venv/bin/python -c "import z3, orquesta; print('setup ok: z3', z3.get_version_string())"
